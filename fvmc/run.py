"""CLI: python -m fvmc.run <ID> [--tier quick|thorough]      (cwd /verif)

With VERIF_FAILFAST=1 (detection runs of tools/seed_verify.py and tools/mutation_run.py only) the check runs in a
child process group that is stopped as soon as it prints its first VIOLATION line; the exit status is 1 then."""
import argparse
import importlib
import os
import signal
import subprocess
import sys


def _failfast(argv):
    env = dict(os.environ)
    env.pop("VERIF_FAILFAST", None)
    env["VERIF_FAILFAST_INNER"] = "1"
    env["VERIF_NOEVIDENCE"] = "1"
    p = subprocess.Popen([sys.executable, "-m", "fvmc.run"] + argv, env=env, stdout=subprocess.PIPE, text=True,
                         start_new_session=True)
    hit = False
    for line in p.stdout:
        sys.stdout.write(line)
        sys.stdout.flush()
        if line.startswith(("VIOLATION", "HARNESS-ERROR")):
            hit = True
            break
    if hit:
        try:
            os.killpg(p.pid, signal.SIGKILL)
        except ProcessLookupError:
            pass
        p.wait()
        return 1
    return p.wait()


def main(argv=None):
    ap = argparse.ArgumentParser()
    ap.add_argument("prop")
    ap.add_argument("--tier", default=os.environ.get("VERIF_TIER", "quick"),
                    choices=["quick", "thorough"])
    a = ap.parse_args(argv)
    if os.environ.get("VERIF_FAILFAST") and not os.environ.get("VERIF_FAILFAST_INNER"):
        return _failfast(list(sys.argv[1:] if argv is None else argv))
    from . import env  # noqa: F401  (sets up the import of the tree under test)
    from . import harness
    mod = importlib.import_module("fvmc.checks.%s" % a.prop.lower())
    return harness.main(mod, a.tier)


if __name__ == "__main__":
    sys.exit(main())
