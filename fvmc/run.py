"""CLI: python -m fvmc.run <ID> [--tier quick|thorough]"""
import argparse
import importlib
import os
import sys

from . import env  # noqa: F401  (sets up the import of the tree under test)
from . import harness


def main(argv=None):
    ap = argparse.ArgumentParser()
    ap.add_argument("prop")
    ap.add_argument("--tier", default=os.environ.get("VERIF_TIER", "quick"),
                    choices=["quick", "thorough"])
    a = ap.parse_args(argv)
    mod = importlib.import_module("fvmc.checks.%s" % a.prop.lower())
    return harness.main(mod, a.tier)


if __name__ == "__main__":
    sys.exit(main())
