"""Replay one recorded case with no explorer:  python -m fvmc.replay <file> [--digest]

Exit 1 if the recorded finding (same key) is reproduced, 0 otherwise."""
import importlib
import json
import sys

from . import env  # noqa: F401
from . import harness


def main(argv=None):
    argv = list(sys.argv[1:] if argv is None else argv)
    digest = "--digest" in argv
    argv = [a for a in argv if not a.startswith("--")]
    with open(argv[0]) as f:
        rec = json.load(f)
    mod = importlib.import_module("fvmc.checks.%s" % rec["property"].lower())
    _, r = harness._safe_run((mod.__name__, rec["case"]))
    hits = [f for f in r.get("findings", []) if f["key"] == rec["key"]]
    if not digest:
        print("property:", rec["property"])
        print("key     :", rec["key"])
        print("case    :", json.dumps(rec["case"], sort_keys=True))
        for f in hits[:5]:
            print("finding :", f.get("msg"))
            print("detail  :", json.dumps(f.get("detail", {}), sort_keys=True, default=str)[:2000])
        print("reproduced" if hits else "NOT reproduced (other keys: %s)"
              % sorted({f["key"] for f in r.get("findings", [])}))
    else:
        print(harness._digest([(f["key"], f.get("msg"), f.get("detail")) for f in hits]))
    return 1 if hits else 0


if __name__ == "__main__":
    sys.exit(main())
