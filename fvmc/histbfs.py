"""Engine C: explicit-state breadth-first search over operation histories on the real
library objects (DESIGN.md section 3.4).

A *model* object provides
    roots()                      -> list of root labels (initial construction styles)
    build(history)               -> world, replaying the history on freshly built objects
    ops(world)                   -> list of enabled operation names (finite menu)
    apply(world, op)             -> None (mutates world; may raise -> reported via on_exception)
    key(world)                   -> hashable canonical key
    invariants(world, history)   -> list of findings
    on_exception(world, history, op, exc) -> finding or None (None = exception is legitimate)
The search is level-synchronous; successor generation and invariant evaluation are
distributed over a process pool.  Successors are generated with copy.deepcopy(world); every
state's invariants are evaluated on a world rebuilt from scratch by replaying its history
(no deepcopy involved), so artefacts of deepcopy cannot produce or hide a finding.
"""
import copy
import multiprocessing as mp

from . import env

_MODEL = None


def _expand(hist):
    m = _MODEL
    out = []
    try:
        w = m.build(hist)
    except Exception as e:  # noqa: BLE001  (history that worked before must replay)
        return [("__replay_error__", list(hist), None, repr(e))]
    for op in m.ops(w):
        w2 = copy.deepcopy(w)
        try:
            m.apply(w2, op)
        except Exception as e:  # noqa: BLE001
            f = m.on_exception(w, list(hist), op, e)
            out.append((None, list(hist) + [op], f, None))
            continue
        out.append((m.key(w2), list(hist) + [op], None, None))
    return out


def _check(hist):
    m = _MODEL
    try:
        w = m.build(hist)
    except Exception as e:  # noqa: BLE001
        # the history was produced on deep copies; replayed on freshly built objects it raises:
        # report it as a finding of the operation that raises (never crash the search)
        f = m.replay_exception(list(hist), e) if hasattr(m, "replay_exception") else \
            {"key": "HARNESS:replay_raises:%s" % type(e).__name__, "msg": "history %s raises %r when replayed" % (hist, e), "detail": {}}
        return list(hist), ("__raises__", tuple(hist)), [f]
    return list(hist), m.key(w), m.invariants(w, list(hist))


def bfs(model, depth, nproc=None, merge=True, max_states=None):
    """Returns dict(states, transitions, depth_completed, closed, caps_hit, findings,
    per_level, samples)."""
    global _MODEL
    _MODEL = model
    nproc = nproc or env.NPROC
    ctx = mp.get_context("fork")
    seen = {}
    findings = []
    transitions = 0
    per_level = []
    caps = []
    frontier = []
    samples = []
    with ctx.Pool(nproc) as pool:
        # level 0
        roots = [[r] for r in model.roots()]
        for hist, key, fs in pool.imap(_check, roots, chunksize=1):
            if key not in seen:
                seen[key] = hist
                frontier.append(hist)
            for f in fs:
                findings.append((hist, f))
        per_level.append(len(frontier))
        closed = False
        completed = 0
        for level in range(1, depth + 1):
            nxt = []
            chunk = max(1, len(frontier) // (nproc * 8))
            for succ in pool.imap(_expand, frontier, chunksize=chunk):
                for key, hist, f, err in succ:
                    if key == "__replay_error__":
                        findings.append((hist, {"key": "HARNESS:replay_error", "msg": "history does not replay: %s" % err,
                                                "detail": {}}))
                        continue
                    transitions += 1
                    if f is not None:
                        findings.append((hist, f))
                    if key is None:
                        continue
                    kk = key if merge else tuple(hist)
                    if kk not in seen:
                        seen[kk] = hist
                        nxt.append(hist)
            if not nxt:
                closed = True
                completed = level
                per_level.append(0)
                break
            if max_states and len(seen) > max_states:
                caps.append("max_states=%d reached while expanding level %d" % (max_states, level))
                completed = level - 1
                break
            chunk = max(1, len(nxt) // (nproc * 8))
            for hist, key, fs in pool.imap(_check, nxt, chunksize=chunk):
                for f in fs:
                    findings.append((hist, f))
            if len(samples) < 3 and nxt:
                samples.append(nxt[len(nxt) // 2])
            per_level.append(len(nxt))
            frontier = nxt
            completed = level
    return {"states": len(seen), "transitions": transitions, "depth_completed": completed, "closed": closed,
            "caps_hit": caps, "findings": findings, "per_level": per_level, "samples": samples}
