"""Engine A helpers: operator algebra on a full basis (DESIGN.md section 3.2)."""
import numpy as np

from .env import pf
from . import universe as U


class Grid:
    """A grid instance plus cached index structures."""

    def __init__(self, spec):
        self.spec = spec
        self.cls = spec["cls"]
        self.d = U.dim(self.cls)
        self.mesh = U.make_mesh(spec)
        self.fshape = U.full_shape(self.mesh)
        self.n = int(np.prod(self.fshape))
        self.dims = tuple(int(k) for k in self.mesh.dims)
        self.imask = U.interior_mask(self.mesh).ravel()
        self.faces = U.all_faces(self.mesh)
        self.face_shapes = U.face_shapes(self.mesh)
        self._phi = None

    # one reusable CellVariable whose complete array (incl. ghosts) we overwrite
    def cell(self, full):
        if self._phi is None:
            self._phi = pf.CellVariable(self.mesh, np.zeros(self.fshape))
        self._phi._value[...] = np.asarray(full, dtype=float).reshape(self.fshape)
        return self._phi

    def unit_cell(self, j):
        e = np.zeros(self.n)
        e[j] = 1.0
        return self.cell(e)

    def unit_face(self, ax, idx, val=1.0):
        f = U.zero_face(self.mesh)
        getattr(f, U.COMP[ax])[idx] = val
        return f

    def face_arrays(self, fv):
        return [np.array(getattr(fv, U.COMP[a]), dtype=float) for a in range(self.d)]

    def is_bface(self, ax, idx):
        return idx[ax] == 0 or idx[ax] == self.dims[ax]

    def cell_of_flat(self, j):
        return tuple(int(i) for i in np.unravel_index(j, self.fshape))

    def role(self, row_flat, ax, idx):
        """Relation of a row cell to face (ax, idx): 'lo' / 'hi' adjacent cell (ghost-inclusive
        indexing: face idx[ax]=k separates cells k and k+1 along ax), else 'far'."""
        c = self.cell_of_flat(row_flat)
        tr = tuple(c[a] - 1 for a in range(self.d) if a != ax)
        fo = tuple(idx[a] for a in range(self.d) if a != ax)
        if tr != fo:
            return "far"
        if c[ax] == idx[ax]:
            return "lo"
        if c[ax] == idx[ax] + 1:
            return "hi"
        return "far"


def dense(M):
    return np.asarray(M.toarray() if hasattr(M, "toarray") else M, dtype=float)


def cmp_tol(a, b, rel=1e-12, floor=1e-300):
    """Boolean mask of entries where a and b differ beyond rounding of sums of products."""
    a = np.asarray(a, dtype=float)
    b = np.asarray(b, dtype=float)
    scale = np.maximum(np.abs(a), np.abs(b))
    if a.ndim == 2:
        rs = np.max(scale, axis=1, keepdims=True)
    else:
        rs = np.max(scale) if scale.size else 0.0
    tol = rel * np.maximum(scale, rs) + floor
    bad = ~(np.abs(a - b) <= tol)   # NaN counts as bad
    return bad
