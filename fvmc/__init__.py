"""fvmc - bounded-exhaustive ("model checking") verification machinery for PyFVTool.

See /verif/DESIGN.md.  The library under test is imported from $VERIF_REPO/src
(default /repo/src) by :mod:`fvmc.env`; nothing is cached between runs.
"""
