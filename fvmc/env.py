"""Environment set-up: single-threaded BLAS, deterministic hashing, and the import of
pyfvtool from the tree under test ($VERIF_REPO, default /repo)."""
import os
import sys

for _v in ("OMP_NUM_THREADS", "OPENBLAS_NUM_THREADS", "MKL_NUM_THREADS",
           "NUMEXPR_NUM_THREADS", "VECLIB_MAXIMUM_THREADS"):
    os.environ.setdefault(_v, "1")
os.environ.setdefault("PYTHONDONTWRITEBYTECODE", "1")
sys.dont_write_bytecode = True

VERIF_DIR = os.path.dirname(os.path.dirname(os.path.abspath(__file__)))
REPO = os.path.abspath(os.environ.get("VERIF_REPO", "/repo"))
_SRC = os.path.join(REPO, "src")
if _SRC not in sys.path[:1]:
    sys.path.insert(0, _SRC)

# The guard for (currently non-existent) verification hooks in the library.
os.environ.setdefault("PYFVTOOL_VERIF", "1")

import warnings  # noqa: E402
import numpy as np  # noqa: E402

import pyfvtool as pf  # noqa: E402

_where = os.path.abspath(pf.__file__)
if not _where.startswith(_SRC + os.sep):
    raise RuntimeError(f"fvmc: pyfvtool imported from {_where}, expected under {_SRC}")

SEED = int(os.environ.get("VERIF_SEED", "0") or 0)
NPROC = int(os.environ.get("VERIF_NPROC", "0") or 0) or min(16, os.cpu_count() or 1)

np.seterr(all="ignore")
warnings.filterwarnings("ignore")

EPS = float(np.finfo(float).eps)
