"""setup_cmd: nothing to build; verifies that the framework imports and sees the tree."""
import sys
from . import env
from . import universe as U

def main():
    m = U.make_mesh(U.spec("Grid1D", (3,), ("I",)))
    assert int(m.dims[0]) == 3
    # the generated manufactured-solution module is committed; if the tooling venv with sympy is
    # present, verify that it is what the generator produces (informational, never fatal)
    import os, shutil, subprocess
    if shutil.which("python3-vt"):
        try:
            r = subprocess.run(["python3-vt", os.path.join(env.VERIF_DIR, "tools", "gen_mms.py"), "--check"],
                               capture_output=True, text=True, timeout=300)
            print("gen_mms --check:", r.stdout.strip() or r.stderr.strip()[-200:])
        except Exception as e:  # noqa: BLE001
            print("gen_mms --check skipped:", e)
    print("fvmc ok: pyfvtool from", env.pf.__file__, "nproc", env.NPROC)
    return 0

if __name__ == "__main__":
    sys.exit(main())
