"""setup_cmd: nothing to build; verifies that the framework imports and sees the tree."""
import sys
from . import env
from . import universe as U

def main():
    m = U.make_mesh(U.spec("Grid1D", (3,), ("I",)))
    assert int(m.dims[0]) == 3
    print("fvmc ok: pyfvtool from", env.pf.__file__, "nproc", env.NPROC)
    return 0

if __name__ == "__main__":
    sys.exit(main())
