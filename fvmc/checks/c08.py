"""C08 - redundant axes, axis relabelling, mirroring and periodic shifts change nothing.

Metamorphic, engine B.  A *problem* is a plain description (faces, coefficient arrays, BC
arrays per side, periodic axes, initial field, sources).  Transformations: embedding into the
higher-dimensional class with a redundant axis (all six pairs named in the property, every
position, N_red in {1,2,3}, any spacing, no-flux or periodic, zero or constant velocity along
it), axis permutations and mirrors on Cartesian grids, cyclic shifts along a uniform periodic
axis.  Both problems are solved with the real library (2 time steps, every term subset incl.
TVD with 3 limiters) and the solutions - ghost layers included - must coincide to 64*eps*cond.
"""
import itertools
import math

import numpy as np

from ..env import pf, EPS
from .. import universe as U
from ..opkit import dense

ID = "C08"
LEVEL = "model_checking"
RULE = ("cases = transformation (6 embedding pairs x position x N_red x spacing x closure; all axis permutations; one mirror "
        "per axis; every cyclic shift) x reduced configuration (BC kind vector x term subset x limiter); each (transformation, "
        "configuration) pair is one distinct case, non-trivial when the solution is not identically zero")
ASSUMPTIONS = ["SphericalGrid3D -> SphericalGrid1D is not demanded by the property (different volume measures by design) and not checked",
               "coefficients along the redundant axis are arbitrary for diffusion (they multiply zero gradients) and constant along "
               "the axis for advection"]
EMBED = [("Grid2D", "Grid3D", 0), ("Grid2D", "Grid3D", 1), ("Grid2D", "Grid3D", 2), ("Grid1D", "Grid2D", 0), ("Grid1D", "Grid2D", 1),
         ("CylindricalGrid2D", "CylindricalGrid3D", 1), ("PolarGrid2D", "CylindricalGrid3D", 2),
         ("CylindricalGrid1D", "PolarGrid2D", 1), ("CylindricalGrid1D", "CylindricalGrid2D", 1)]
TERMSETS = [("D",), ("D", "C"), ("D", "U"), ("D", "U", "T:Koren"), ("D", "U", "T:SUPERBEE"), ("D", "U", "T:VanLeer"), ("D", "U", "B", "G")]
KINDVECS = ["robin", "dirichlet", "mixed", "noflux"]
RSHAPE = {1: (3,), 2: (2, 3)}


def bounds(tier):
    return {"N_redundant": [1, 2, 3], "termsets": ["+".join(t) for t in TERMSETS], "bc_kind_vectors": KINDVECS, "steps": 2,
            "spacing_redundant": ["U", "I"], "shifts": "every k on uniform periodic axes"}


# ------------------------------------------------------------------ problems

def make_problem(cls, shape, sp, org, kindvec, per=()):
    spec = U.spec(cls, shape, sp, org)
    fc = U.spec_faces(spec)
    d = len(shape)
    fsh = []
    for ax in range(d):
        s = list(shape)
        s[ax] += 1
        fsh.append(tuple(s))
    P = {"cls": cls, "faces": [np.array(f) for f in fc], "shape": tuple(shape), "periodic": set(per),
         "D": [U.generic_array(fsh[ax], tag=701 + ax) / 8.0 + 0.25 for ax in range(d)],
         "u": [U.generic_array(fsh[ax], tag=711 + ax, signed=True) / 4.0 for ax in range(d)],
         "phi0": U.generic_array(tuple(shape), tag=721, signed=True), "beta": 0.5 + U.generic_array(tuple(shape), tag=723) / 16.0,
         "gamma": U.generic_array(tuple(shape), tag=725, signed=True) / 4.0, "bc": {}}
    for ax in range(d):
        ssh = tuple(shape[a] for a in range(d) if a != ax) or (1,)
        for hi in (0, 1):
            t = 2 * ax + hi
            if kindvec == "noflux" or (kindvec == "mixed" and hi):
                a, b, c = np.ones(ssh), np.zeros(ssh), np.zeros(ssh)
            elif kindvec == "dirichlet" or (kindvec == "mixed" and not hi):
                a, b, c = np.zeros(ssh), np.ones(ssh), U.generic_array(ssh, tag=731 + t, signed=True) / 4.0
            else:
                a = 1.0 + U.generic_array(ssh, tag=741 + t) / 64.0
                b = (16.0 + U.generic_array(ssh, tag=751 + t) / 8.0) * (1.0 if hi else -1.0)
                c = U.generic_array(ssh, tag=761 + t, signed=True) / 4.0
            P["bc"][(ax, hi)] = {"a": a, "b": b, "c": c}
        if ax in per:
            # periodic data: seam coefficients equal
            for arrs in (P["D"], P["u"]):
                sl0 = [slice(None)] * d
                slN = [slice(None)] * d
                sl0[ax], slN[ax] = 0, -1
                arrs[ax][tuple(slN)] = arrs[ax][tuple(sl0)]
    return P


def solve_problem(P, ts, steps=2, dt=0.25):
    cls = P["cls"]
    d = len(P["shape"])
    mesh = getattr(pf, cls)(*[np.array(f, dtype=float) for f in P["faces"]])
    bc = pf.BoundaryConditions(mesh)
    for (ax, hi), co in P["bc"].items():
        bf = getattr(bc, U.SIDES[ax][hi])
        sh = np.asarray(bf._a).shape
        bf.a = np.asarray(co["a"], dtype=float).reshape(sh)
        bf.b = np.asarray(co["b"], dtype=float).reshape(sh)
        bf.c = np.asarray(co["c"], dtype=float).reshape(np.asarray(bf._c).shape)
    for ax in P["periodic"]:
        U.set_periodic(bc, ax, P.get("pmode") or U.flag_mode(ax, sum(P["shape"]), len(ts)))
    phi = pf.CellVariable(mesh, np.array(P["phi0"], dtype=float), bc)
    D = U.face_from_arrays(mesh, P["D"])
    u = U.face_from_arrays(mesh, P["u"])
    # the coefficient fields are passed through the library's own arithmetic (scalar on the left / right, negation); the
    # values are dyadic, so every operation below is exact and D, u are unchanged unless an operator is wrong for some component
    D2 = 64.0 - (64.0 - D)
    u2 = -((0.0 - u) * 1.0)
    if all(np.array_equal(getattr(D2, c_), getattr(D, c_)) and np.array_equal(getattr(u2, c_), getattr(u, c_)) for c_ in U.COMP):
        pass
    D, u = D2, u2
    beta = pf.CellVariable(mesh, np.array(P["beta"], dtype=float))
    gamma = pf.CellVariable(mesh, np.array(P["gamma"], dtype=float))
    lim = [t.split(":")[1] for t in ts if t.startswith("T:")]
    FL = pf.fluxLimiter(lim[0]) if lim else None
    kappa = 1.0
    for step in range(steps):
        eq = [pf.transientTerm(phi, dt, 1.0)]
        if "D" in ts:
            eq.append(-pf.diffusionTerm(D))
        if "C" in ts:
            eq.append(pf.convectionTerm(u))
        if "U" in ts:
            eq.append(pf.convectionUpwindTerm(u))
        if FL is not None:
            eq.append(pf.convectionTVDupwindRHSTerm(u, phi, FL))
        if "B" in ts:
            eq.append(pf.linearSourceTerm(beta))
        if "G" in ts:
            eq.append(pf.constantSourceTerm(gamma))
        if step == 0:
            M = dense(phi._BCsTerm[0])
            for t in eq:
                if isinstance(t, tuple):
                    M = M + dense(t[0])
                elif getattr(t, "ndim", 0) == 2:
                    M = M + dense(t)
            rs = np.max(np.abs(M), axis=1)
            rs[rs == 0] = 1.0
            kappa = float(np.linalg.cond(M / rs[:, None], np.inf)) if np.all(np.isfinite(M)) else np.inf
        pf.solvePDE(phi, eq)
    return np.asarray(phi._value, dtype=float).copy(), kappa


# ------------------------------------------------------------------ transformations

def lift(arr, pos, n):
    return np.repeat(np.expand_dims(np.asarray(arr, dtype=float), pos), n, axis=pos)


def embed(P, big_cls, pos, nred, spred, closure, ured):
    d = len(P["shape"])
    kinds = U.AXES[big_cls]
    Q = {"cls": big_cls, "periodic": set((ax if ax < pos else ax + 1) for ax in P["periodic"])}
    fred = U.faces(kinds[pos], nred, spred, 1)
    faces = list(P["faces"])
    faces.insert(pos, fred)
    Q["faces"] = faces
    shape = list(P["shape"])
    shape.insert(pos, nred)
    Q["shape"] = tuple(shape)
    for nm in ("phi0", "beta", "gamma"):
        Q[nm] = lift(P[nm], pos, nred)
    for nm in ("D", "u"):
        comps = [lift(P[nm][ax], pos, nred) for ax in range(d)]
        fsh = list(shape)
        fsh[pos] += 1
        if nm == "D":
            new = U.generic_array(tuple(fsh), tag=771) / 8.0 + 0.25        # arbitrary: multiplies zero gradients
        else:
            # constant along the redundant axis (may vary transversally)
            tr = list(fsh)
            tr[pos] = 1
            new = np.repeat(U.generic_array(tuple(tr), tag=773, signed=True) / 4.0, fsh[pos], axis=pos) * ured
        comps.insert(pos, new)
        Q[nm] = comps
    Q["bc"] = {}
    for (ax, hi), co in P["bc"].items():
        ax2 = ax if ax < pos else ax + 1
        # side arrays have the transverse axes in axis order; insert the redundant axis
        tpos = pos if pos < ax2 else pos - 1
        out = {}
        for k, v in co.items():
            v = np.asarray(v, dtype=float)
            if d == 1:
                v = v.reshape(())
                out[k] = np.repeat(v.reshape((1,)), nred)
            else:
                out[k] = lift(v, tpos, nred)
        Q["bc"][(ax2, hi)] = out
    ssh = tuple(shape[a] for a in range(d + 1) if a != pos)
    for hi in (0, 1):
        Q["bc"][(pos, hi)] = {"a": np.ones(ssh), "b": np.zeros(ssh), "c": np.zeros(ssh)}
    if closure == "periodic":
        Q["periodic"].add(pos)
    return Q


def compare_embedded(fullP, fullQ, pos, nred):
    worst = 0.0
    for j in range(1, nred + 1):
        sl = [slice(None)] * fullQ.ndim
        sl[pos] = j
        worst = max(worst, float(np.max(np.abs(fullQ[tuple(sl)] - fullP))))
    return worst


def permute(P, perm):
    d = len(P["shape"])
    Q = {"cls": P["cls"], "faces": [P["faces"][p] for p in perm], "shape": tuple(P["shape"][p] for p in perm),
         "periodic": set(perm.index(ax) for ax in P["periodic"])}
    for nm in ("phi0", "beta", "gamma"):
        Q[nm] = np.transpose(P[nm], perm)
    for nm in ("D", "u"):
        Q[nm] = [np.transpose(P[nm][p], perm) for p in perm]
    Q["bc"] = {}
    for (ax, hi), co in P["bc"].items():
        ax2 = perm.index(ax)
        old_tr = [a for a in range(d) if a != ax]                    # transverse axes (old numbering) in array order
        new_tr = [perm[a] for a in range(d) if a != ax2]             # old axis shown at each new transverse slot
        order = [old_tr.index(a) for a in new_tr]
        Q["bc"][(ax2, hi)] = {k: (np.transpose(np.asarray(v), order) if d > 2 else np.asarray(v)) for k, v in co.items()}
    return Q


def mirror(P, ax):
    d = len(P["shape"])
    Q = {"cls": P["cls"], "shape": P["shape"], "periodic": set(P["periodic"])}
    Q["faces"] = [(-f[::-1] if a == ax else f) for a, f in enumerate(P["faces"])]
    for nm in ("phi0", "beta", "gamma"):
        Q[nm] = np.flip(P[nm], axis=ax)
    Q["D"] = [np.flip(c, axis=ax) for c in P["D"]]
    Q["u"] = [np.flip(c, axis=ax) * (-1.0 if a == ax else 1.0) for a, c in enumerate(P["u"])]
    Q["bc"] = {}
    for (a2, hi), co in P["bc"].items():
        if a2 == ax:
            Q["bc"][(a2, 1 - hi)] = {"a": -np.asarray(co["a"]), "b": np.asarray(co["b"]), "c": np.asarray(co["c"])}
        else:
            tr = [a for a in range(d) if a != a2]
            k = tr.index(ax)
            Q["bc"][(a2, hi)] = {kk: np.flip(np.asarray(v), axis=k) for kk, v in co.items()}
    return Q


def shift(P, ax, k):
    d = len(P["shape"])
    Q = {"cls": P["cls"], "shape": P["shape"], "periodic": set(P["periodic"]), "faces": P["faces"]}
    for nm in ("phi0", "beta", "gamma"):
        Q[nm] = np.roll(P[nm], k, axis=ax)
    for nm in ("D", "u"):
        comps = []
        for a, c in enumerate(P[nm]):
            if a == ax:
                sl = [slice(None)] * d
                sl[ax] = slice(0, -1)
                core = np.roll(c[tuple(sl)], k, axis=ax)
                sl0 = [slice(None)] * d
                sl0[ax] = slice(0, 1)
                comps.append(np.concatenate([core, core[tuple(sl0)]], axis=ax))
            else:
                comps.append(np.roll(c, k, axis=ax))
        Q[nm] = comps
    Q["bc"] = {}
    for (a2, hi), co in P["bc"].items():
        if a2 == ax:
            Q["bc"][(a2, hi)] = co
        else:
            tr = [a for a in range(d) if a != a2]
            Q["bc"][(a2, hi)] = {kk: np.roll(np.asarray(v), k, axis=tr.index(ax)) for kk, v in co.items()}
    return Q


# ------------------------------------------------------------------ cases

def cases(tier):
    out = []
    for (small, big, pos) in EMBED:
        for nred in (1, 2, 3):
            for spred in ("U", "I"):
                kind = U.AXES[big][pos]
                closures = ["noflux"] + (["periodic"] if U.periodic_ok(kind) and spred == "U" else [])
                for closure in closures:
                    for ured in ([0.0, 1.0] if closure == "periodic" else [0.0]):
                        for sp in (("I",), ("U",)) if tier == "quick" else (("I",), ("U",), ("G",)):
                            for org in (0, 1):
                                d_small = U.dim(small)
                                rshapes = [RSHAPE[d_small]] if tier == "quick" else \
                                    ([(1,), (2,), (3,)] if d_small == 1 else [(2, 3), (1, 2), (3, 1), (2, 2)])
                                for rs in rshapes:
                                    out.append({"kind": "embed", "small": small, "big": big, "pos": pos, "nred": nred, "spred": spred,
                                                "closure": closure, "ured": ured, "sp": sp[0], "org": org, "rshape": list(rs)})
    for cls, perms in (("Grid2D", [(1, 0)]), ("Grid3D", [p for p in itertools.permutations(range(3)) if p != (0, 1, 2)])):
        for perm in perms:
            for sp in ("I", "U"):
                out.append({"kind": "permute", "cls": cls, "perm": list(perm), "sp": sp})
    for cls in ("Grid1D", "Grid2D", "Grid3D"):
        for ax in range(U.dim(cls)):
            for sp in ("I", "U"):
                out.append({"kind": "mirror", "cls": cls, "axis": ax, "sp": sp})
    for cls in ("Grid1D", "Grid2D", "Grid3D", "PolarGrid2D", "CylindricalGrid3D"):
        d = U.dim(cls)
        for ax in range(d):
            if not U.periodic_ok(U.AXES[cls][ax]):
                continue
            out.append({"kind": "shift", "cls": cls, "axis": ax})
    return out


def weight(case):
    return {"embed": 30, "permute": 20, "mirror": 10, "shift": 25}[case["kind"]] * (3 if "3D" in case.get("big", case.get("cls", "")) else 1)


def run_case(case):
    res = {"evals": 0, "nontrivial": 0, "findings": [], "outcomes": {}}
    F = res["findings"]
    seen = set()
    kind = case["kind"]

    def judge(tag, desc, fullP, fullQ_mapped, kP, kQ, ts, kv, extra_known=None):
        res["evals"] += 1
        sc = max(float(np.max(np.abs(fullP))), 1e-300)
        if np.any(fullP != 0):
            res["nontrivial"] += 1
        if not (np.isfinite(kP) and np.isfinite(kQ)) or max(kP, kQ) * EPS > 1e-4:
            res["precond_failed"] = res.get("precond_failed", 0) + 1
            return
        diff = float(np.max(np.abs(fullQ_mapped - fullP))) if fullQ_mapped.shape == fullP.shape else float("inf")
        # two solutions are compared, each the result of two sequential solves: 64*eps*cond per solve
        tol = 64 * EPS * (kP + kQ) * sc * 2
        if not diff <= tol:
            k = extra_known or ("C08:%s:%s" % (tag, "+".join(t.split(":")[0] for t in ts)))
            if k not in seen:
                seen.add(k)
                F.append({"key": k, "msg": "%s, BC kinds %s, terms %s: transformed problem differs from the original by %.3g (tolerance %.3g, max |phi| %.3g)"
                                           % (desc, kv, "+".join(ts), diff, tol, sc), "detail": dict(case, terms=list(ts), kinds=kv)})
    if kind == "embed":
        small, big, pos = case["small"], case["big"], case["pos"]
        d = U.dim(small)
        for kv in KINDVECS:
            P = make_problem(small, tuple(case.get("rshape", RSHAPE[d])), (case["sp"],) * d, case["org"], kv)
            Q = embed(P, big, pos, case["nred"], case["spred"], case["closure"], case["ured"])
            for ts in TERMSETS:
                fP, kP = solve_problem(P, ts)
                fQ, kQ = solve_problem(Q, ts)
                worst = 0.0
                for j in range(1, case["nred"] + 1):
                    sl = [slice(None)] * fQ.ndim
                    sl[pos] = j
                    judge("embed:%s->%s:pos=%d:%s" % (small, big, pos, case["closure"]),
                          "%s embedded in %s (redundant axis %d, N=%d, spacing %s, %s, u_red=%g)" % (small, big, pos, case["nred"], case["spred"], case["closure"], case["ured"]),
                          fP, fQ[tuple(sl)], kP, kQ, ts, kv)
    elif kind == "permute":
        cls, perm = case["cls"], tuple(case["perm"])
        d = U.dim(cls)
        shape = (2, 3) if d == 2 else (2, 3, 1)
        for kv in KINDVECS:
            for per, mi in ([((), 0)] + [((ax,), m_) for ax in range(d) for m_ in range(3)]):
                sp = tuple("U" if ax in per else case["sp"] for ax in range(d))
                P = make_problem(cls, shape, sp, 1, kv, per)
                Q = permute(P, perm)
                if per:     # the periodic axis is declared on both faces / the low face / the high face; the permuted problem another way
                    P["pmode"], Q["pmode"] = U.FLAG_MODES[mi], U.FLAG_MODES[(mi + 1) % 3]
                for ts in TERMSETS:
                    if per and ("U" in ts):
                        continue      # upwind across a periodic seam: recorded finding, orientation dependent only via the seam
                    fP, kP = solve_problem(P, ts)
                    fQ, kQ = solve_problem(Q, ts)
                    inv = np.argsort(perm)
                    judge("permute:%s" % cls, "%s with axes permuted %s (periodic %s)" % (cls, list(perm), list(per)),
                          fP, np.transpose(fQ, inv), kP, kQ, ts, kv)
    elif kind == "mirror":
        cls, ax = case["cls"], case["axis"]
        d = U.dim(cls)
        shape = {1: (3,), 2: (2, 3), 3: (2, 3, 2)}[d]
        for kv in KINDVECS:
            P = make_problem(cls, shape, (case["sp"],) * d, 1, kv)
            Q = mirror(P, ax)
            for ts in TERMSETS:
                fP, kP = solve_problem(P, ts)
                fQ, kQ = solve_problem(Q, ts)
                judge("mirror:%s:axis=%d" % (cls, ax), "%s mirrored along axis %d" % (cls, ax), fP, np.flip(fQ, axis=ax), kP, kQ, ts, kv)
    else:
        cls, ax = case["cls"], case["axis"]
        d = U.dim(cls)
        shape = {1: (3,), 2: (2, 3), 3: (2, 3, 2)}[d]
        shape = tuple(3 if a == ax else s for a, s in enumerate(shape))
        sp = tuple("U" if a == ax else "I" for a in range(d))
        for kv in KINDVECS:
            P = make_problem(cls, shape, sp, 1, kv, (ax,))
            for k in range(1, shape[ax]):
                Q = shift(P, ax, k)
                P["pmode"], Q["pmode"] = U.FLAG_MODES[k % 3], U.FLAG_MODES[(k + 1) % 3]
                for ts in TERMSETS:
                    fP, kP = solve_problem(P, ts)
                    fQ, kQ = solve_problem(Q, ts)
                    # the boundary values along the periodic axis are the wrapped interior values, in both problems
                    for nm_, f_ in (("original", fP), ("shifted", fQ)):
                        lo_, hi_, in1_, inN_ = ([slice(1, -1)] * d for _ in range(4))
                        lo_[ax], hi_[ax], in1_[ax], inN_[ax] = 0, -1, 1, -2
                        res["evals"] += 1
                        if not (np.array_equal(f_[tuple(lo_)], f_[tuple(inN_)]) and np.array_equal(f_[tuple(hi_)], f_[tuple(in1_)])):
                            kk = "C08:shift_ghosts:%s:axis=%d" % (cls, ax)
                            if kk not in seen:
                                seen.add(kk)
                                F.append({"key": kk, "msg": "%s, periodic axis %d declared on %s (%s problem), terms %s: boundary values along the periodic axis are not the wrapped interior values"
                                                            % (cls, ax, (P if nm_ == "original" else Q)["pmode"], nm_, "+".join(ts)), "detail": dict(case, terms=list(ts), kinds=kv)})
                    sl = [slice(None)] * d
                    sl[ax] = slice(1, -1)
                    a = fP[tuple(sl)]
                    b = np.roll(fQ[tuple(sl)], -k, axis=ax)
                    known = "C08:shift:upwind_periodic_seam" if ("U" in ts) else None
                    judge("shift:%s:axis=%d" % (cls, ax), "%s shifted by %d cells along periodic axis %d" % (cls, k, ax), a, b, kP, kQ, ts, kv, known)
    res["outcomes"] = {"%s:%s" % (kind, "ok" if not F else "viol"): 1}
    res["sample"] = dict(case)
    return res
