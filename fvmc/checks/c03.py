"""C03 - reported boundary values satisfy the configured boundary conditions.

Engine B (configuration lattice with deviation bound): class x shape x spacing x kind per
side in {N0 default no-flux, D Dirichlet, N Neumann, R Robin with face-wise arrays} x every
periodic subset of the non-radial axes x interior field x the four operations that
(re)compute ghost values (construction, apply_BCs after an edit, solvePDE, solveExplicitPDE).
Oracle per boundary face (loop-based): a*(phi_out-phi_in)/(h*Delta) + b*(phi_out+phi_in)/2 = c
in the positive coordinate direction with metric factor h in {1, r_P, r_P sin(theta_P)};
exact wrap on periodic axes and only there; plotprofile boundary entries == face average;
the solver's boundary rows applied to the reported array vanish; scaling (a,b,c) by a
non-zero factor changes nothing.
"""
import itertools

import numpy as np

from ..env import pf, EPS
from .. import universe as U
from ..opkit import Grid, dense

ID = "C03"
LEVEL = "model_checking"
RULE = ("configurations = grid instance x kind per side (all vectors within the deviation bound from all-default) x "
        "periodic subset x field x operation; every boundary face of every configuration is checked; non-trivial: the "
        "face carries a non-default condition or a non-zero field value")
ASSUMPTIONS = ["only non-singular boundary conditions are generated: |+-a/(h*Delta)+b/2| >= 1/8 on every face (checked per face)",
               "corner/edge ghost cells are not boundary values and are not checked"]
KINDS = ["N0", "D", "N", "R", "R2"]
SIDE_NAMES = ("left", "right", "bottom", "top", "back", "front")


def bounds(tier):
    return {"cells_per_axis": "1..3", "kinds": KINDS, "deviation_bound": 2 if tier == "quick" else "full product (d<=2), 3 (d=3)",
            "operations": ["construct", "apply_BCs", "solvePDE", "solveExplicitPDE"]}


QUICK_SHAPES = {1: [(1,), (2,), (3,)], 2: [(1, 1), (2, 3), (3, 2), (1, 3)], 3: [(2, 2, 2), (1, 2, 3), (3, 1, 2)]}


def cases(tier):
    out = []
    templates = ["U", "I"] if tier == "quick" else ["U", "G", "I"]
    for cls in U.CLASSES:
        d = U.dim(cls)
        shp = QUICK_SHAPES[d] if tier == "quick" else U.shapes(d, "quick")
        for shape in shp:
            sps = [(t,) * d for t in templates] + ([("U", "I", "U")[:d]] if d > 1 else [])
            if tier == "thorough" and d > 1:
                sps.append(("I", "U", "I")[:d])
            for sp in sps:
                for org in (0, 1):
                    s = U.spec(cls, shape, sp, org)
                    for op in ("construct", "apply_BCs", "solvePDE", "solveExplicitPDE", "scale"):
                        if op == "scale" and tier == "quick" and sp != (templates[-1],) * d:
                            continue        # quick: invariance under scaling (a, b, c) on the irregular template only
                        out.append({"grid": s, "op": op, "tier": tier})
                    if sp == (templates[-1],) * d:
                        out.append({"grid": s, "op": "sharing", "tier": tier})
        # the same problem in other units: lengths x 2^k (a scales with the length), values x 2^m (c scales
        # with the value) - exact rescalings, so every relation must hold exactly as before
        shape = QUICK_SHAPES[d][1] if d > 1 else (3,)
        for (k, m) in ((-30, 0), (0, -40), (40, 30), (-30, -40)):
            s = U.spec(cls, shape, ("I",) * d, 1, k)
            for op in ("construct", "apply_BCs", "solvePDE", "solveExplicitPDE", "scale"):
                out.append({"grid": s, "op": op, "tier": tier, "mag": m})
    return out


def weight(case):
    d = len(case["grid"]["shape"])
    return int(np.prod([k + 2 for k in case["grid"]["shape"]])) * (5 ** d) * (3 if case["op"] in ("solvePDE", "scale", "sharing") else 1)


def kind_vectors(d, tier):
    n = 2 * d
    base = ["N0"] * n
    out = [tuple(base)]
    if tier == "thorough" and d <= 2:
        return list(itertools.product(KINDS, repeat=n))
    bound = 2 if tier == "quick" else 3
    for k in range(1, bound + 1):
        for pos in itertools.combinations(range(n), k):
            for vals in itertools.product(KINDS[1:], repeat=k):
                v = list(base)
                for p, x in zip(pos, vals):
                    v[p] = x
                out.append(tuple(v))
    # plus the uniform vectors (every side the same kind) - far from the default
    for kd in KINDS[1:]:
        out.append(tuple([kd] * n))
    return out


def periodic_subsets(cls, tier="thorough"):
    kinds = U.AXES[cls]
    axes = [ax for ax in range(len(kinds)) if U.periodic_ok(kinds[ax])]
    out = []
    for r in range(len(axes) + 1):
        if tier == "quick" and 1 < r < len(axes):
            continue            # quick: none, each single axis, all axes
        out += list(itertools.combinations(axes, r))
    return out


def side_shape(g, ax):
    return tuple(g.dims[a] for a in range(g.d) if a != ax)


def set_side(g, bc, ax, hi, kind, tag, amul=1.0, cmul=1.0):
    """Configure one side; returns nothing.  Face-wise arrays for R/R2, all different."""
    bf = getattr(bc, U.SIDES[ax][hi])
    sh = np.asarray(bf._a).shape
    if kind == "N0":
        return
    if kind == "D":
        bf.a = 0.0
        bf.b = 1.0
        bf.c = cmul * U.generic_array(sh, tag=tag, signed=True).reshape(np.asarray(bf._c).shape) / 4.0
        return
    if kind == "N":
        bf.a = 1.0
        bf.b = 0.0
        bf.c = (cmul / amul) * U.generic_array(sh, tag=tag + 1, signed=True).reshape(np.asarray(bf._c).shape) / 4.0
        return
    hD = face_hdelta(g, ax, hi).reshape(sh) / amul
    a = 1.0 + U.generic_array(sh, tag=tag + 2) / 64.0
    b = 2.0 + U.generic_array(sh, tag=tag + 3) / 8.0
    if kind == "R":
        # signs such that the ghost denominator cannot vanish
        b = b if hi else -b
    else:
        a = -a if hi else a
        b = b * (1.0 if (tag % 2) else -1.0)
    # non-singular filter, per face: both +-a/(h Delta) + b/2 at least 1/8 in magnitude
    for _ in range(60):
        bad = (np.abs(a / hD + b / 2) < 0.125) | (np.abs(-a / hD + b / 2) < 0.125)
        if not bad.any():
            break
        b = np.where(bad, b * 2.0 + 0.375, b)
    bf.a = a * amul
    bf.b = b
    bf.c = cmul * (U.generic_array(sh, tag=tag + 4, signed=True) / 4.0).reshape(np.asarray(bf._c).shape)


def face_hdelta(g, ax, hi):
    """h*Delta on every boundary face of side (ax, hi), array of the side's shape."""
    sz = np.asarray(getattr(g.mesh.cellsize, ("_x", "_y", "_z")[ax]))
    delta = sz[-1] if hi else sz[0]
    h = U.hfactor(g.cls, g.mesh, ax)
    sl = [slice(None)] * g.d
    sl[ax] = -1 if hi else 0
    return np.asarray(h[tuple(sl)] * delta, dtype=float).reshape(side_shape(g, ax) or (1,))


class _FaceRecorder:
    """Stands in for a BoundaryFace in set_side(): records the coefficient arrays intended for one side, independently
    of the library's container (which a defect might wire to another side)."""

    def __init__(self, shape):
        self._a = np.ones(shape)
        self._b = np.zeros(shape)
        self._c = np.zeros(shape)

    def _set(self, name, val):
        arr = getattr(self, name)
        arr[...] = val

    a = property(lambda self: self._a, lambda self, v: self._set("_a", v))
    b = property(lambda self: self._b, lambda self, v: self._set("_b", v))
    c = property(lambda self: self._c, lambda self, v: self._set("_c", v))


def intended_coefficients(g, kinds, cmul=1.0):
    """{(axis, hi): (a, b, c)} as make_bc assigns them, recorded outside the library."""
    shapes = pf.BoundaryConditions(g.mesh)
    amul = 2.0 ** g.spec.get("scale", 0)
    out = {}
    for ax in range(g.d):
        for hi in (0, 1):
            rec_bc = type("R", (), {})()
            rec = _FaceRecorder(np.asarray(getattr(shapes, U.SIDES[ax][hi])._a).shape)
            setattr(rec_bc, U.SIDES[ax][hi], rec)
            set_side(g, rec_bc, ax, hi, kinds[2 * ax + hi], tag=200 + 10 * (2 * ax + hi), amul=amul, cmul=cmul)
            out[(ax, hi)] = (rec._a, rec._b, rec._c)
    return out


def make_bc(g, kinds, per, cmul=1.0, pmode="lo"):
    bc = pf.BoundaryConditions(g.mesh)
    amul = 2.0 ** g.spec.get("scale", 0)
    for ax in range(g.d):
        for hi in (0, 1):
            set_side(g, bc, ax, hi, kinds[2 * ax + hi], tag=200 + 10 * (2 * ax + hi), amul=amul, cmul=cmul)
        if ax in per:
            # either face declares the axis periodic; "alt": low face on even axes, high face on odd ones
            U.set_periodic(bc, ax, pmode if pmode != "alt" else ("lo", "hi")[ax % 2])
    return bc


def check_boundary(g, v, per, res, seen, label, kinds, intended=None):
    """All boundary faces of variable v against the reference relation (one numpy expression
    per side; written independently of the library's ghost formulas: it evaluates the
    relation itself, never solves for the ghost value)."""
    F = res["findings"]
    full = np.asarray(v._value, dtype=float)
    for ax in range(g.d):
        sz = np.asarray(getattr(g.mesh.cellsize, ("_x", "_y", "_z")[ax]))
        h = U.hfactor(g.cls, g.mesh, ax)
        for hi in (0, 1):
            bf = getattr(v.BCs, U.SIDES[ax][hi])
            sh = side_shape(g, ax) or (1,)
            if intended is not None:        # the arrays that were set for THIS side (not what the object now says)
                A, B, C = (np.asarray(x, dtype=float).reshape(sh) for x in intended[(ax, hi)])
                if not (np.array_equal(A, np.asarray(bf._a, dtype=float).reshape(sh)) and np.array_equal(B, np.asarray(bf._b, dtype=float).reshape(sh))
                        and np.array_equal(C, np.asarray(bf._c, dtype=float).reshape(sh))):
                    k = "C03:coefficients_read_back:%s:axis=%d:%s" % (g.cls, ax, "hi" if hi else "lo")
                    if k not in seen:
                        seen.add(k)
                        F.append({"key": k, "msg": "%s on %s: the coefficients read back from the %s side of axis %d are not the ones that were set for it"
                                                   % (label, U.spec_id(g.spec), "high" if hi else "low", ax),
                                  "detail": {"grid": U.spec_id(g.spec), "kinds": list(kinds), "periodic": list(per)}})
            else:
                A = np.asarray(bf._a, dtype=float).reshape(sh)
                B = np.asarray(bf._b, dtype=float).reshape(sh)
                C = np.asarray(bf._c, dtype=float).reshape(sh)
            sl_in = [slice(1, -1)] * g.d
            sl_gh = [slice(1, -1)] * g.d
            sl_op = [slice(1, -1)] * g.d
            sl_in[ax] = -2 if hi else 1
            sl_gh[ax] = -1 if hi else 0
            sl_op[ax] = 1 if hi else -2
            inner = full[tuple(sl_in)].reshape(sh)
            ghost = full[tuple(sl_gh)].reshape(sh)
            opp = full[tuple(sl_op)].reshape(sh)
            slh = [slice(None)] * g.d
            slh[ax] = -1 if hi else 0
            delta = (sz[-1] if hi else sz[0]) * np.asarray(h[tuple(slh)], dtype=float).reshape(sh)
            kind = kinds[2 * ax + hi]
            res["evals"] += int(inner.size)
            res["nontrivial"] += int(inner.size) if kind != "N0" else int(np.count_nonzero(inner))
            if ax in per:
                bad = ~(ghost == opp)
                if bad.any():
                    k = "C03:periodic_wrap:%s:axis=%d:%s" % (g.cls, ax, label)
                    if k not in seen:
                        seen.add(k)
                        i0 = tuple(int(x) for x in np.argwhere(bad)[0])
                        F.append({"key": k, "msg": "%s on %s, axis %d periodic: %s-side ghost (transverse index %s) = %.15g, opposite interior cell holds %.15g"
                                                   % (label, U.spec_id(g.spec), ax, "high" if hi else "low", list(i0), ghost[i0], opp[i0]),
                                  "detail": {"grid": U.spec_id(g.spec), "kinds": list(kinds), "periodic": list(per)}})
                continue
            lo_v, hi_v = (inner, ghost) if hi else (ghost, inner)
            resid = A * (hi_v - lo_v) / delta + B * 0.5 * (hi_v + lo_v) - C
            scale = np.abs(A) * (np.abs(hi_v) + np.abs(lo_v)) / delta + np.abs(B) * 0.5 * (np.abs(hi_v) + np.abs(lo_v)) + np.abs(C)
            den = np.abs((A / delta if hi else -A / delta) + B / 2)
            tol = 64 * EPS * scale * np.maximum(1.0, (np.abs(A) / delta + np.abs(B) / 2) / np.maximum(den, 1e-300)) + 1e-300
            bad = ~(np.abs(resid) <= tol)
            if bad.any():
                k = "C03:relation:%s:axis=%d:%s:%s:%s%s" % (g.cls, ax, "hi" if hi else "lo", kind, label,
                                                          ":other_axis_periodic" if per else "")
                if k not in seen:
                    seen.add(k)
                    i0 = tuple(int(x) for x in np.argwhere(bad)[0])
                    F.append({"key": k, "msg": "%s on %s: boundary face %s side of axis %d, transverse index %s (kind %s, a=%.4g b=%.4g c=%.4g): a*dphi/(h*Delta)+b*mean-c = %.3g (tolerance %.3g)"
                                               % (label, U.spec_id(g.spec), "high" if hi else "low", ax, list(i0), kind, A[i0], B[i0], C[i0], resid[i0], tol[i0]),
                              "detail": {"grid": U.spec_id(g.spec), "kinds": list(kinds), "periodic": list(per)}})


def check_plotprofile(g, v, res, seen, label):
    try:
        prof = v.plotprofile()
    except Exception as e:  # noqa: BLE001
        k = "C03:plotprofile_exception:%s" % g.cls
        if k not in seen:
            seen.add(k)
            res["findings"].append({"key": k, "msg": "plotprofile on %s raises %r" % (U.spec_id(g.spec), e), "detail": {}})
        return
    phi0 = np.asarray(prof[-1], dtype=float)
    full = np.asarray(v._value, dtype=float)
    for ax in range(g.d):
        for hi in (0, 1):
            sl_b = [slice(1, -1)] * g.d
            sl_g = [slice(1, -1)] * g.d
            sl_i = [slice(1, -1)] * g.d
            sl_b[ax] = -1 if hi else 0
            sl_g[ax] = -1 if hi else 0
            sl_i[ax] = -2 if hi else 1
            want = 0.5 * (full[tuple(sl_g)] + full[tuple(sl_i)])
            got = phi0[tuple(sl_b)]
            res["evals"] += 1
            if not np.array_equal(got, want):
                k = "C03:plotprofile:%s:axis=%d" % (g.cls, ax)
                if k not in seen:
                    seen.add(k)
                    res["findings"].append({"key": k, "msg": "%s: plotprofile boundary entries of axis %d on %s are not the face averages of ghost and end cell" % (label, ax, U.spec_id(g.spec)), "detail": {}})


def check_bcrows(g, v, per, res, seen, label, kinds):
    """Rows of boundaryConditionsTerm(BC) applied to the reported array vanish on every
    boundary (non-corner ghost) row."""
    Mbc, rbc = pf.boundaryConditionsTerm(v.BCs)
    M = dense(Mbc)
    full = np.asarray(v._value, dtype=float).ravel()
    r = M @ full - rbc
    sc = np.abs(M) @ np.abs(full) + np.abs(rbc)
    sizes = [np.asarray(getattr(g.mesh.cellsize, a)) for a in ("_x", "_y", "_z")[:g.d]]
    for j in range(g.n):
        c = g.cell_of_flat(j)
        ghost_axes = [a for a in range(g.d) if c[a] == 0 or c[a] == g.dims[a] + 1]
        if len(ghost_axes) != 1:
            continue
        res["evals"] += 1
        ax = ghost_axes[0]
        if not abs(r[j]) <= 256 * EPS * sc[j] + 1e-300:
            unequal = ax in per and abs(sizes[ax][1] - sizes[ax][-2]) > 4 * EPS * sizes[ax][1]
            if unequal:
                k = "C03:bcrows_vs_reported:periodic_unequal_ends"
            else:
                k = "C03:bcrows_vs_reported:%s:axis=%d:%s%s" % (g.cls, ax, label, ":periodic" if ax in per else "")
            if k not in seen:
                seen.add(k)
                res["findings"].append({"key": k, "msg": "%s on %s: the solver's boundary equation for ghost cell %s applied to the reported array has residual %.3g (scale %.3g)"
                                                         % (label, U.spec_id(g.spec), list(c), r[j], sc[j]),
                                        "detail": {"grid": U.spec_id(g.spec), "kinds": list(kinds), "periodic": list(per)}})


def check_interior_rows(g, v, eq, res, seen, label, kinds, per):
    """The solved interior and the reported boundary values are mutually consistent: the interior equations (sum of the
    terms), evaluated on the reported array with its re-imposed boundary values, are satisfied."""
    M = np.zeros((g.n, g.n))
    r = np.zeros(g.n)
    for t in eq:
        if isinstance(t, tuple):
            M = M + dense(t[0])
            r = r + np.asarray(t[1], dtype=float)
        elif getattr(t, "ndim", 0) == 2:
            M = M + dense(t)
        else:
            r = r + np.asarray(t, dtype=float)
    full = np.asarray(v._value, dtype=float).ravel()
    resid = (M @ full - r)[g.imask]
    sc = (np.abs(M) @ np.abs(full) + np.abs(r))[g.imask]
    res["evals"] += int(resid.size)
    if not np.all(np.abs(resid) <= 1e-9 * np.max(sc) + 1e-300):
        k = "C03:interior_vs_reported:%s:%s" % (g.cls, label)
        if k not in seen:
            seen.add(k)
            j = int(np.argmax(np.abs(resid)))
            res["findings"].append({"key": k, "msg": "%s on %s: the interior equations evaluated with the reported boundary values have residual %.3g (scale %.3g) - "
                                                     "the solver did not use the boundary conditions that the reported values obey" % (label, U.spec_id(g.spec), resid[j], float(np.max(sc))),
                                    "detail": {"grid": U.spec_id(g.spec), "kinds": list(kinds), "periodic": list(per)}})


def fields(g):
    out = [("generic", U.generic_array(g.dims, tag=221, signed=True))]
    # unit interior fields: first, last and (if any) a middle cell
    cells = sorted({(0,) * g.d, tuple(k - 1 for k in g.dims), tuple(k // 2 for k in g.dims)})
    for c in cells:
        e = np.zeros(g.dims)
        e[c] = 1.0
        out.append(("unit%s" % (list(c),), e))
    return out


def run_case(case):
    g = Grid(case["grid"])
    tier = case.get("tier", "quick")
    op = case["op"]
    res = {"evals": 0, "nontrivial": 0, "findings": [], "outcomes": {}}
    seen = set()
    mag = 2.0 ** case.get("mag", 0)
    lsc = 2.0 ** g.spec.get("scale", 0)
    D = U.generic_face(g.mesh, tag=223)
    if lsc != 1.0:          # keep D*dt/dx^2 of order one in the rescaled units
        D = U.face_from_arrays(g.mesh, [a * lsc * lsc for a in g.face_arrays(D)])
    rhs_expl = mag * U.generic_array(g.fshape, tag=225, signed=True).ravel()
    flds = [(n, f * mag) for n, f in fields(g)]
    kvs = kind_vectors(g.d, tier)
    pers = periodic_subsets(g.cls, tier)
    if op in ("solvePDE", "scale", "sharing") or tier == "quick":
        flds = flds[:2]
    if op in ("construct", "apply_BCs", "solveExplicitPDE") and mag == 1.0:
        # the initial array may be integer- or bool-typed ("a count / label / mask field"); the variable is
        # documented to hold floats, so its boundary values must satisfy the same relation
        ints = np.arange(1, 1 + int(np.prod(g.dims)), dtype=np.int64).reshape(g.dims) * 3 - 7
        flds = flds + [("int64", ints), ("int32", ints.astype(np.int32)), ("bool", (ints % 2 == 0))]
    if tier == "quick" and op in ("solvePDE", "solveExplicitPDE") and g.d == 3:
        kvs = [k for k in kvs if sum(x != "N0" for x in k) != 2]       # 3-D solves: singles + uniform vectors
    if op == "scale":
        flds = flds[:1]
        if tier == "quick":
            kvs = [k for k in kvs if sum(x != "N0" for x in k) != 2]   # singles + uniform vectors
    for kinds in kvs:
        for per, pmode in [(p_, m_) for p_ in pers for m_ in (("lo",) if not p_ else ("lo", "hi", "both", "alt"))]:
            if pmode != "lo" and sum(x != "N0" for x in kinds) == 2:
                continue        # the other ways of flagging the axis: default, single deviations and the uniform vectors
            if pmode == "alt" and len(per) < 2:
                continue
            for fname, fld in flds:
                if fname in ("int64", "int32", "bool") and sum(x != "N0" for x in kinds) == 2:
                    continue        # typed initial arrays: default, single deviations and the uniform vectors
                if op == "construct":
                    v = pf.CellVariable(g.mesh, fld.copy(), make_bc(g, kinds, per, mag, pmode))
                elif op == "apply_BCs":
                    v = pf.CellVariable(g.mesh, fld.copy())
                    nb = make_bc(g, kinds, per, mag, pmode)
                    for s in SIDE_NAMES:
                        o, n = getattr(nb, s), getattr(v.BCs, s)
                        if np.asarray(o._a).size:
                            n.a = np.array(o._a)
                            n.b = np.array(o._b)
                            n.c = np.array(o._c)
                        if o._periodic:
                            n.periodic = True
                    v.apply_BCs()
                elif op == "sharing":
                    # the conditions are edited on a variable's own BC object, a second variable is then constructed
                    # with that same object, and the first one is solved: its boundary values obey the edited conditions
                    v = pf.CellVariable(g.mesh, fld.copy(), pf.BoundaryConditions(g.mesh))
                    v.apply_BCs()
                    nb = make_bc(g, kinds, per, mag, pmode)
                    for s_ in SIDE_NAMES:
                        o, n = getattr(nb, s_), getattr(v.BCs, s_)
                        if np.asarray(o._a).size:
                            n.a = np.array(o._a)
                            n.b = np.array(o._b)
                            n.c = np.array(o._c)
                        if o._periodic:
                            n.periodic = True
                    w_ = pf.CellVariable(g.mesh, fld[::-1].copy() if g.d == 1 else fld * 0.5, v.BCs)
                    eq_ = [pf.transientTerm(v, 0.5, 1.0), -pf.diffusionTerm(D)]
                    pf.solvePDE(v, eq_)
                    if np.all(np.isfinite(np.asarray(v._value)[tuple(slice(1, -1) for _ in range(g.d))])) and not per:
                        check_interior_rows(g, v, eq_, res, seen, op, kinds, per)
                    if np.all(np.isfinite(np.asarray(w_._value))):
                        check_boundary(g, w_, per, res, seen, "sharing(second variable)", kinds)
                elif op == "solvePDE":
                    v = pf.CellVariable(g.mesh, fld.copy(), make_bc(g, kinds, per, mag, pmode))
                    eq_ = [pf.transientTerm(v, 0.5, 1.0), -pf.diffusionTerm(D)]
                    pf.solvePDE(v, eq_)
                    if np.all(np.isfinite(np.asarray(v._value)[tuple(slice(1, -1) for _ in range(g.d))])) and not per:
                        check_interior_rows(g, v, eq_, res, seen, op, kinds, per)
                elif op == "solveExplicitPDE":
                    v0 = pf.CellVariable(g.mesh, fld.copy(), make_bc(g, kinds, per, mag, pmode))
                    v = pf.solveExplicitPDE(v0, 0.125, rhs_expl)
                elif op == "scale":
                    if pmode == "lo":
                        _scale_case(g, kinds, per, fld, D, res, seen, mag)
                    continue
                if not np.all(np.isfinite(np.asarray(v._value)[tuple(slice(1, -1) for _ in range(g.d))])):
                    res["precond_failed"] = res.get("precond_failed", 0) + 1
                    continue
                check_boundary(g, v, per, res, seen, op, kinds, intended=intended_coefficients(g, kinds, mag))
                if fname == "generic":
                    check_plotprofile(g, v, res, seen, op)
                    check_bcrows(g, v, per, res, seen, op, kinds)
    res["outcomes"] = {"%s:%s" % (op, "ok" if not res["findings"] else "viol"): 1}
    res["sample"] = {"grid": U.spec_id(g.spec), "op": op, "kind_vectors": len(kvs), "periodic_subsets": len(pers),
                     "example_kinds": list(kvs[min(7, len(kvs) - 1)])}
    return res


def _scale_case(g, kinds, per, fld, D, res, seen, mag=1.0):
    """(a,b,c) -> lambda*(a,b,c), per side and globally, changes nothing in the solution."""
    def solve(scales):
        bc = make_bc(g, kinds, per, mag)
        for (ax, hi), lam in scales.items():
            bf = getattr(bc, U.SIDES[ax][hi])
            bf.a = np.array(bf._a) * lam
            bf.b = np.array(bf._b) * lam
            bf.c = np.array(bf._c) * lam
        v = pf.CellVariable(g.mesh, fld.copy(), bc)
        eq = [pf.transientTerm(v, 0.5, 1.0), -pf.diffusionTerm(D)]
        M = dense(v._BCsTerm[0]) + dense(eq[0][0]) + dense(eq[1])
        kap = float(np.linalg.cond(M, np.inf)) if np.all(np.isfinite(M)) else np.inf
        pf.solvePDE(v, eq)
        return np.asarray(v._value, dtype=float).copy(), kap
    base, kap = solve({})
    if not np.isfinite(kap) or kap * EPS > 1e-4:
        res["precond_failed"] = res.get("precond_failed", 0) + 1
        return
    sides = [(ax, hi) for ax in range(g.d) for hi in (0, 1)]
    variants = [{s: lam for s in sides} for lam in (-2.0, 0.5, 4.0)]
    variants += [{s: lam} for s in sides for lam in (-2.0, 4.0)]
    for sc in variants:
        got, kap2 = solve(sc)
        res["evals"] += 1
        res["nontrivial"] += 1
        tol = 64 * EPS * max(kap, kap2) * max(mag, float(np.max(np.abs(base))))
        inner = tuple(slice(1, -1) for _ in range(g.d))
        if not np.all(np.abs(got[inner] - base[inner]) <= tol):
            k = "C03:scale_invariance:%s" % g.cls
            if k not in seen:
                seen.add(k)
                res["findings"].append({"key": k, "msg": "scaling (a,b,c) by %s on %s (kinds %s, periodic %s) changes the solution by %.3g (tolerance %.3g)"
                                                         % (sorted(set(sc.values())), U.spec_id(g.spec), list(kinds), list(per),
                                                            float(np.max(np.abs(got[inner] - base[inner]))), tol),
                                        "detail": {"grid": U.spec_id(g.spec), "kinds": list(kinds), "periodic": list(per)}})
