"""C01 - closed systems conserve the domain integral (interior face fluxes cancel).

(a)  operator level, engine A: for every grid instance and every unit face field e_f the
     cellvolume-weighted column sums of T(e_f) vanish for interior faces and equal
     +-(face area)*(reference face flux) for boundary faces, T in {diffusion, central,
     upwind(+-), explicit divergence}; TVD: sum_c V_c RHS_c = 0 with the velocity restricted
     to one interior face, for all {0,1,2}-valued line fields x limiters.
(a') periodic closure at operator level (wrapped ghosts, seam faces carry one coefficient).
(b)  solver level, engine B: closed configurations (no-flux with zero wall-normal velocity
     or periodic per axis) x term subsets x dt x 3 steps, implicit and explicit.
(c)  open boundaries: integral change == - sum of boundary-face fluxes from reported ghosts.
"""
import itertools

import numpy as np

from ..env import pf, EPS
from .. import universe as U
from ..opkit import Grid, dense

ID = "C01"
LEVEL = "model_checking"
RULE = ("cases = grid instance x part; op parts evaluate every (unit face field, unit cell field) pair; a pair is "
        "non-trivial when the face touches the cell's row (non-zero matrix column); solver parts enumerate closure kind "
        "per axis x term subset x dt x scheme and count one non-trivial case per configuration whose integral is non-zero")
ASSUMPTIONS = [
    "the measure is mesh.cellvolume (what domainIntegral uses); for SphericalGrid3D, whose cellvolume is a recorded "
    "finding (C10), conservation is additionally required w.r.t. the mid-point measure r_P^2 sin(theta_P) dr dtheta dphi",
    "solver-level tolerance 64*eps*cond(M)*sum(V|phi|); configurations with cond*eps > 1e-4 are counted as preconditions_failed",
]
LIMS_1D = ['CHARM', 'HCUS', 'HQUICK', 'ospre', 'VanLeer', 'VanAlbada1', 'VanAlbada2', 'MinMod',
           'SUPERBEE', 'Sweby', 'Osher', 'Koren', 'smart', 'MUSCL', 'QUICK', 'UMIST']
LIMS_ND = ['Koren', 'VanLeer', 'SUPERBEE']
LIMS_ND_QUICK = ['Koren']


def bounds(tier):
    return {"operator_level_grids": U.grid_bounds(tier), "solver_level": {"cells_per_axis": "1..3", "spacing_templates": ["U", "I"] if tier == "quick" else ["U", "G", "I"]},
            "dt": ["2^-10", "1", "2^10"], "steps": 3}


SOLVE_SHAPES = {1: [(1,), (2,), (3,)], 2: [(1, 1), (2, 3), (3, 2), (1, 3)], 3: [(1, 1, 1), (2, 1, 3), (2, 2, 2)]}


def cases(tier):
    out = []
    specs = U.grid_specs(tier)
    for s in specs:
        out.append({"grid": s, "part": "op"})
        out.append({"grid": s, "part": "tvd", "tier": tier})
        if any(U.periodic_ok(k) for k in U.AXES[s["cls"]]):
            out.append({"grid": s, "part": "periodic_op"})
    for s in U.big_specs():
        out.append({"grid": s, "part": "op_big"})
    templates = ["U", "I"] if tier == "quick" else ["U", "G", "I"]
    for cls in U.CLASSES:
        d = U.dim(cls)
        shp = SOLVE_SHAPES[d] if tier == "quick" else U.shapes(d, "quick")
        for shape in shp:
            for sp in itertools.product(templates, repeat=d):
                for org in (0, 1):
                    s = U.spec(cls, shape, sp, org)
                    out.append({"grid": s, "part": "solve_closed"})
                    out.append({"grid": s, "part": "solve_open"})
    return out


# ------------------------------------------------------------------ measures

def measures(g):
    """List of (name, V array of dims).  First entry is what domainIntegral uses."""
    V = np.asarray(g.mesh.cellvolume, dtype=float)
    ms = [("cellvolume", V)]
    if g.cls == "SphericalGrid3D":
        ms.append(("midpoint", U.metric(g.cls, g.mesh)["vol"]))
    return ms


def _vfull(g, V):
    vf = np.zeros(g.fshape)
    vf[tuple(slice(1, -1) for _ in range(g.d))] = V
    return vf.ravel()


def _mkey(kind, g, mname, ax, bface):
    if g.cls == "SphericalGrid3D" and mname == "cellvolume":
        return "C01:%s:SphericalGrid3D:cellvolume_measure" % kind
    return "C01:%s:%s:axis=%d:%s%s" % (kind, g.cls, ax, "bface" if bface else "iface",
                                       ":midpoint_measure" if mname == "midpoint" else "")


def _op_big_part(g, res):
    """Many cells per axis: generic coefficient fields that vanish on the boundary faces (closed system), all four
    global sign patterns of the velocity, two generic cell fields: the volume-weighted sum of every flux-form term
    vanishes.  Measure: what domainIntegral uses (SphericalGrid3D: the mid-point measure the terms divide by; the
    mismatch with cellvolume is the recorded finding)."""
    F = res["findings"]
    V = U.metric(g.cls, g.mesh)["vol"] if g.cls == "SphericalGrid3D" else np.asarray(g.mesh.cellvolume, dtype=float)
    vf = _vfull(g, V)
    FL = pf.fluxLimiter("Koren")

    def closed(arrs):
        out = []
        for ax, a in enumerate(arrs):
            a = a.copy()
            sl = [slice(None)] * g.d
            sl[ax] = 0
            a[tuple(sl)] = 0.0
            sl[ax] = -1
            a[tuple(sl)] = 0.0
            out.append(a)
        return out
    D = U.face_from_arrays(g.mesh, closed(g.face_arrays(U.generic_face(g.mesh, tag=31))))
    absu = closed(g.face_arrays(U.generic_face(g.mesh, tag=33)))
    pats = []
    for mode in range(4):
        arrs = []
        for a in absu:
            par = np.indices(a.shape).sum(axis=0) % 2
            arrs.append(a if mode == 0 else (-a if mode == 1 else np.where(par == (mode - 2), a, -a)))
        pats.append(arrs)
    pats += [[s_ * a for s_, a in zip(sg, absu)] for sg in U.axis_sign_patterns(g.d) if len(set(sg)) > 1]

    def rep(what, vec, mag):
        res["evals"] += 1
        res["nontrivial"] += 1
        tot = float(vf @ vec)
        sc = float(np.abs(vf) @ np.abs(mag))
        if not abs(tot) <= 1e-11 * sc + 1e-300:
            F.append({"key": "C01:big:%s:%s" % (what, g.cls),
                      "msg": "%s on %s with coefficients that vanish on the boundary: the volume-weighted sum of the term is %.6g (scale %.6g), interior fluxes do not cancel"
                             % (what, U.spec_id(g.spec), tot, sc), "detail": {"grid": U.spec_id(g.spec)}})
    for tag in (35, 37):
        fld = U.generic_array(g.fshape, tag=tag, signed=(tag == 35))
        phi = g.cell(fld)
        x = fld.ravel()
        M = pf.diffusionTerm(D)
        rep("diffusionTerm", M @ x, abs(M) @ np.abs(x))
        Fd = D * pf.gradientTerm(phi)
        dv = np.asarray(pf.divergenceTerm(Fd), dtype=float)
        rep("divergenceTerm", dv, np.abs(dv))
        for pi, arrs in enumerate(pats):
            u = U.face_from_arrays(g.mesh, arrs)
            for nm, T in (("convectionTerm", pf.convectionTerm), ("convectionUpwindTerm", pf.convectionUpwindTerm)):
                M = T(u)
                rep(nm, M @ x, abs(M) @ np.abs(x))
            rhs = np.asarray(pf.convectionTVDupwindRHSTerm(u, phi, FL), dtype=float)
            if np.all(np.isfinite(rhs)):
                # scale: the upwind operator's magnitude (the correction is a difference of fluxes of that size)
                rep("convectionTVDupwindRHSTerm", rhs, abs(pf.convectionUpwindTerm(u)) @ np.abs(x) + np.abs(rhs))


def _op_part(g, res):
    F = res["findings"]
    met = U.metric(g.cls, g.mesh)
    ms = measures(g)
    # reference face images of every unit cell field (loop-based, independent of the library)
    sizes = [np.asarray(getattr(g.mesh.cellsize, a)) for a in ("_x", "_y", "_z")[:g.d]]
    builders = [("diff", lambda f: dense(pf.diffusionTerm(f))),
                ("conv", lambda f: dense(pf.convectionTerm(f))),
                ("upw+", lambda f: dense(pf.convectionUpwindTerm(f))),
                ("upw-", lambda f: dense(pf.convectionUpwindTerm(f)))]
    seen = set()
    for (ax, idx) in g.faces:
        bface = g.is_bface(ax, idx)
        # ghost-inclusive flat indices of the two cells adjacent to the face
        lo = [i + 1 for i in idx]
        lo[ax] = idx[ax]
        hi = list(lo)
        hi[ax] = idx[ax] + 1
        jlo = int(np.ravel_multi_index(lo, g.fshape))
        jhi = int(np.ravel_multi_index(hi, g.fshape))
        DXlo, DXhi = sizes[ax][idx[ax]], sizes[ax][idx[ax] + 1]
        h = 1.0
        for name, build in builders:
            sgn = -1.0 if name == "upw-" else 1.0
            M = build(g.unit_face(ax, idx, sgn))
            res["evals"] += g.n
            for mname, V in ms:
                vf = _vfull(g, V)
                col = vf @ M                  # V-weighted column sums, one per unit cell field
                absum = np.abs(vf) @ np.abs(M)
                res["nontrivial"] += int(np.count_nonzero(absum))
                if not bface:
                    bad = np.abs(col) > 1e-12 * absum + 1e-300
                    expect = np.zeros(g.n)
                else:
                    # reference boundary flux of e_j through this face, times area, times the
                    # ratio (reported volume)/(metric volume) of the adjacent interior cell
                    inner = hi if idx[ax] == 0 else lo
                    ci = tuple(i - 1 for i in inner)
                    rho = V[ci] / met["vol"][ci]
                    A = met["area"][ax][idx] * rho
                    out_sign = -1.0 if idx[ax] == 0 else 1.0
                    expect = np.zeros(g.n)
                    if name == "diff":
                        hfac = U.hfactor(g.cls, g.mesh, ax)[ci]
                        dxf = 0.5 * (DXlo + DXhi) * hfac
                        expect[jhi] += 1.0 / dxf
                        expect[jlo] -= 1.0 / dxf
                    elif name == "conv":
                        expect[jlo] += DXhi / (DXlo + DXhi)
                        expect[jhi] += DXlo / (DXlo + DXhi)
                    else:
                        inflow = (sgn > 0 and idx[ax] == 0) or (sgn < 0 and idx[ax] != 0)
                        if inflow:          # boundary value = plain average of ghost and interior
                            expect[jlo] += 0.5 * sgn
                            expect[jhi] += 0.5 * sgn
                        else:               # donor = the interior cell
                            expect[jlo if sgn > 0 else jhi] += sgn
                    expect = expect * A * out_sign
                    bad = np.abs(col - expect) > 1e-12 * (absum + np.abs(expect)) + 1e-300
                if bad.any():
                    j = int(np.flatnonzero(bad)[0])
                    k = _mkey("op_" + name.rstrip("+-"), g, mname, ax, bface)
                    if k in seen:
                        continue
                    seen.add(k)
                    F.append({"key": k,
                              "msg": "%s on %s: V-weighted column sum for unit %s coefficient on %s face axis %d %s and unit cell %s is %.6g, expected %.6g (measure %s)"
                                     % (name, U.spec_id(g.spec), name, "boundary" if bface else "interior", ax, list(idx),
                                        list(g.cell_of_flat(j)), col[j], expect[j], mname),
                              "detail": {"grid": U.spec_id(g.spec), "face": [ax, list(idx)], "cell": list(g.cell_of_flat(j)),
                                         "got": float(col[j]), "expected": float(expect[j]), "measure": mname}})
        # explicit divergence of the unit face flux
        dv = np.asarray(pf.divergenceTerm(g.unit_face(ax, idx)), dtype=float)
        res["evals"] += 1
        for mname, V in ms:
            vf = _vfull(g, V)
            tot = float(vf @ dv)
            sc = float(np.abs(vf) @ np.abs(dv))
            res["nontrivial"] += 1 if sc else 0
            if not bface:
                exp = 0.0
            else:
                inner = hi if idx[ax] == 0 else lo
                ci = tuple(i - 1 for i in inner)
                exp = met["area"][ax][idx] * V[ci] / met["vol"][ci] * (-1.0 if idx[ax] == 0 else 1.0)
            if abs(tot - exp) > 1e-12 * (sc + abs(exp)) + 1e-300:
                k = _mkey("op_div", g, mname, ax, bface)
                if k not in seen:
                    seen.add(k)
                    F.append({"key": k, "msg": "divergenceTerm on %s: sum_c V_c div(e_f)_c = %.6g for %s face axis %d %s, expected %.6g (measure %s)"
                                               % (U.spec_id(g.spec), tot, "boundary" if bface else "interior", ax, list(idx), exp, mname),
                              "detail": {"grid": U.spec_id(g.spec), "face": [ax, list(idx)]}})


def _stencil_fields(g, ax, idx, alphabet=(0.0, 1.0, 2.0)):
    """Lines longer than 5 cells: all assignments of the alphabet to the four cells the correction on face (ax, idx)
    can see (two on either side, clipped at the ends), lifted along the other axes, twice: zero and one elsewhere."""
    n = g.fshape[ax]
    k = idx[ax]                         # face between ghost-inclusive cells k and k+1
    cells = [c for c in (k - 1, k, k + 1, k + 2) if 0 <= c < n]
    out = []
    for bg in (0.0, 1.0):
        for vals in itertools.product(alphabet, repeat=len(cells)):
            line = np.full(n, bg)
            line[cells] = vals
            sh = [1] * g.d
            sh[ax] = n
            out.append(np.broadcast_to(line.reshape(sh), g.fshape).copy())
    return out


def _line_fields(g, alphabet=(0.0, 1.0, 2.0)):
    out = []
    for ax in range(g.d):
        if g.fshape[ax] > 5:
            continue                    # long lines: per-face stencil enumeration (_stencil_fields)
        for line in itertools.product(alphabet, repeat=g.fshape[ax]):
            sh = [1] * g.d
            sh[ax] = g.fshape[ax]
            out.append(np.broadcast_to(np.array(line).reshape(sh), g.fshape).copy())
    return out


def _tvd_part(g, res, tier="quick"):
    F = res["findings"]
    ms = measures(g)
    lims = LIMS_1D if g.d == 1 else (LIMS_ND_QUICK if tier == "quick" else LIMS_ND)
    fls = [(n, pf.fluxLimiter(n)) for n in lims]
    fields = _line_fields(g)
    if g.d > 1:
        # keep the multi-D sweep affordable: fields that vary along the face's own axis only
        pass
    seen = set()
    for (ax, idx) in g.faces:
        if g.is_bface(ax, idx):
            continue
        for sgn in (1.0, -1.0):
            u = g.unit_face(ax, idx, sgn)
            for fld in (fields if g.fshape[ax] <= 5 else fields + _stencil_fields(g, ax, idx)):
                # a field constant along `ax` gives psi = 0 identically: skip (trivial)
                if np.all(np.diff(fld, axis=ax) == 0):
                    continue
                phi = g.cell(fld)
                for lname, FL in fls:
                    res["evals"] += 1
                    rhs = np.asarray(pf.convectionTVDupwindRHSTerm(u, phi, FL), dtype=float)
                    if np.any(rhs != 0):
                        res["nontrivial"] += 1
                    if not np.all(np.isfinite(rhs)):
                        continue        # C13's subject
                    for mname, V in ms:
                        vf = _vfull(g, V)
                        tot = float(vf @ rhs)
                        sc = float(np.abs(vf) @ np.abs(rhs))
                        if abs(tot) > 1e-12 * sc + 1e-300:
                            k = _mkey("op_tvd", g, mname, ax, False)
                            if k in seen:
                                continue
                            seen.add(k)
                            F.append({"key": k, "msg": "TVD correction (%s) on %s with velocity %+g on interior face axis %d %s only: sum_c V_c RHS_c = %.6g (measure %s)"
                                                       % (lname, U.spec_id(g.spec), sgn, ax, list(idx), tot, mname),
                                      "detail": {"grid": U.spec_id(g.spec), "face": [ax, list(idx)], "field": fld.tolist(), "limiter": lname}})


def _wrap(g, full, ax):
    """Overwrite the ghost layer of axis `ax` by the opposite interior layer (periodic)."""
    a = full
    sl = [slice(None)] * g.d
    s0, s1, sN, sN1 = list(sl), list(sl), list(sl), list(sl)
    s0[ax], s1[ax], sN[ax], sN1[ax] = 0, 1, -2, -1
    a[tuple(s0)] = a[tuple(sN)]
    a[tuple(sN1)] = a[tuple(s1)]
    return a



def seam_mismatch(g, full, pax, V, met, Darr=None, uarr=None, ghosts="copy"):
    """Recorded seam-flux mismatch of a periodic axis `pax`: what sum_c V_c (T phi)_c is
    allowed to be under the two recorded findings, for T = +div(D grad) and T = div(u phi):
      upwind   : the inflow seam face takes the average of ghost and end cell, the outflow
                 seam face the donor cell:  u>0: u*A*(phi_N - G)/2,  u<0: u*A*(phi_N + G - 2 phi_1)/2
      diffusion: only with copied ghosts on unequal end cells:
                 D*A*(phi_1-phi_N)*(1/dx_N - 1/dx_1)/h
    G is the ghost value beyond the high end: phi_1 when ghosts are copied (reported values,
    explicit steps), ((1-a) phi_N + 2a phi_1)/(1+a), a = dx_N/dx_1, for the solver's periodic
    rows (implicit steps).  Returns (diffusion part, upwind part), summed over the seam faces."""
    sizes = np.asarray(getattr(g.mesh.cellsize, ("_x", "_y", "_z")[pax]))
    d1, dN = sizes[1], sizes[-2]
    a = dN / d1
    hf = U.hfactor(g.cls, g.mesh, pax)
    tot_d = tot_u = 0.0
    for idx in np.ndindex(*g.face_shapes[pax]):
        if idx[pax] != 0:
            continue
        c1 = list(idx)
        cN = list(idx)
        cN[pax] = g.dims[pax] - 1
        c1, cN = tuple(c1), tuple(cN)
        f1 = full[tuple(i + 1 for i in c1)]
        fN = full[tuple(i + 1 for i in cN)]
        G = f1 if ghosts == "copy" else ((1.0 - a) * fN + 2.0 * a * f1) / (1.0 + a)
        A = met["area"][pax][idx] * V[c1] / met["vol"][c1]
        if Darr is not None and ghosts == "copy":
            tot_d += Darr[pax][idx] * A * (f1 - fN) * (1.0 / dN - 1.0 / d1) / hf[c1]
        if uarr is not None:
            uf = uarr[pax][idx]
            if uf > 0:
                tot_u += uf * A * (fN - G) / 2.0
            elif uf < 0:
                tot_u += uf * A * (fN + G - 2.0 * f1) / 2.0
    return tot_d, tot_u


def _periodic_op_part(g, res):
    """Operator-level periodic closure: wrapped ghosts, the two seam faces carry the same
    coefficient; every interior unit cell field; diffusion / central / upwind / divergence."""
    F = res["findings"]
    kinds = U.AXES[g.cls]
    sizes = [np.asarray(getattr(g.mesh.cellsize, a)) for a in ("_x", "_y", "_z")[:g.d]]
    ms = measures(g)
    met = U.metric(g.cls, g.mesh)
    seen = set()
    interior_cells = [j for j in range(g.n) if g.imask[j]]
    for pax in range(g.d):
        if not U.periodic_ok(kinds[pax]):
            continue
        equal_ends = abs(sizes[pax][1] - sizes[pax][-2]) <= 4 * EPS * sizes[pax][1]
        # seam face fields: for every boundary face on the low side, set it and its partner to 1
        for idx in np.ndindex(*g.face_shapes[pax]):
            if idx[pax] != 0:
                continue
            partner = list(idx)
            partner[pax] = g.dims[pax]
            partner = tuple(partner)
            for name in ("diff", "conv", "upw+", "upw-"):
                sgn = -1.0 if name == "upw-" else 1.0
                f = g.unit_face(pax, idx, sgn)
                getattr(f, U.COMP[pax])[partner] = sgn
                M = {"diff": pf.diffusionTerm, "conv": pf.convectionTerm}.get(name, pf.convectionUpwindTerm)(f)
                M = dense(M)
                for j in interior_cells:
                    e = np.zeros(g.fshape)
                    e.flat[j] = 1.0
                    e = _wrap(g, e, pax)
                    out = M @ e.ravel()
                    aout = np.abs(M) @ np.abs(e.ravel())
                    res["evals"] += 1
                    for mname, V in ms:
                        vf = _vfull(g, V)
                        tot = float(vf @ out)
                        sc = float(np.abs(vf) @ aout)
                        if sc:
                            res["nontrivial"] += 1
                        if abs(tot) > 1e-12 * sc + 1e-300:
                            # residual oracle: the recorded seam mismatch and nothing else
                            carr = [np.zeros(sh) for sh in g.face_shapes]
                            carr[pax][idx] = sgn
                            md, mu = seam_mismatch(g, e, pax, V, met, Darr=carr, uarr=carr)
                            exp = md if name == "diff" else (mu if name.startswith("upw") else 0.0)
                            resid_ok = abs(tot - exp) <= 1e-12 * (sc + abs(exp)) + 1e-300
                            if g.cls == "SphericalGrid3D" and mname == "cellvolume":
                                k = "C01:periodic_op:SphericalGrid3D:cellvolume_measure"
                            elif name.startswith("upw") and resid_ok:
                                k = "C01:periodic_seam:upwind:op"
                            elif name == "diff" and not equal_ends and resid_ok:
                                k = "C01:periodic_seam:unequal_ends:diffusion:op"
                            else:
                                k = _mkey("periodic_op_" + name, g, mname, pax, True)
                            if k in seen:
                                continue
                            seen.add(k)
                            F.append({"key": k, "msg": "%s on %s, periodic axis %d with wrapped ghosts: the two seam faces %s/%s do not carry the same flux for unit cell %s: sum_c V_c (T phi)_c = %.6g (recorded seam mismatch would be %.6g; measure %s)"
                                                       % (name, U.spec_id(g.spec), pax, list(idx), list(partner), list(g.cell_of_flat(j)), tot, exp, mname),
                                      "detail": {"grid": U.spec_id(g.spec), "axis": pax, "face": list(idx), "cell": list(g.cell_of_flat(j))}})


# ------------------------------------------------------------------ solver level

def _closed_velocity(g, closure, tag):
    arrs = g.face_arrays(U.generic_face(g.mesh, tag=tag, signed=True))
    for ax in range(g.d):
        sl_lo = [slice(None)] * g.d
        sl_hi = [slice(None)] * g.d
        sl_lo[ax], sl_hi[ax] = 0, -1
        if closure[ax] == "noflux":
            arrs[ax][tuple(sl_lo)] = 0.0
            arrs[ax][tuple(sl_hi)] = 0.0
        else:
            arrs[ax][tuple(sl_hi)] = arrs[ax][tuple(sl_lo)]
    return arrs


def _periodic_coeff(g, closure, tag):
    arrs = g.face_arrays(U.generic_face(g.mesh, tag=tag))
    for ax in range(g.d):
        if closure[ax] == "periodic":
            sl_lo = [slice(None)] * g.d
            sl_hi = [slice(None)] * g.d
            sl_lo[ax], sl_hi[ax] = 0, -1
            arrs[ax][tuple(sl_hi)] = arrs[ax][tuple(sl_lo)]
    return arrs


def _integral(phi, V, reported=False):
    """sum(V*value); for the library's own measure the number domainIntegral() reports is used,
    after checking that it is that sum."""
    mine = float(np.sum(V * np.asarray(phi.value)))
    if reported:
        lib = float(phi.domainIntegral())
        if not abs(lib - mine) <= 64 * EPS * float(np.sum(np.abs(V * np.asarray(phi.value)))) + 1e-300:
            raise AssertionError("domainIntegral() = %r is not sum(cellvolume*value) = %r" % (lib, mine))
        return lib
    return mine


def _solve_closed_part(g, res):
    F = res["findings"]
    kinds = U.AXES[g.cls]
    sizes = [np.asarray(getattr(g.mesh.cellsize, a)) for a in ("_x", "_y", "_z")[:g.d]]
    opts = [["noflux"] + (["periodic"] if U.periodic_ok(k) else []) for k in kinds]
    ms = measures(g)
    met = U.metric(g.cls, g.mesh)
    seen = set()
    FL = pf.fluxLimiter("Koren")
    for closure in itertools.product(*opts):
        uarr = _closed_velocity(g, closure, 21)
        Darr = _periodic_coeff(g, closure, 23)
        u = U.face_from_arrays(g.mesh, uarr)
        D = U.face_from_arrays(g.mesh, Darr)
        unequal = any(closure[ax] == "periodic" and abs(sizes[ax][1] - sizes[ax][-2]) > 4 * EPS * sizes[ax][1]
                      for ax in range(g.d))
        anyper = "periodic" in closure
        for terms in (("D",), ("C",), ("U",), ("D", "C"), ("D", "U"), ("D", "U", "T")):
            for scheme, dts in (("implicit", (2.0 ** -10, 1.0, 2.0 ** 10)), ("explicit", (2.0 ** -10,))):
                for dt in dts:
                    bc = pf.BoundaryConditions(g.mesh)
                    for ax in range(g.d):
                        if closure[ax] == "periodic":
                            U.set_periodic(bc, ax, U.flag_mode(ax, len(terms), scheme == "explicit", sum(g.dims)))
                    phi = pf.CellVariable(g.mesh, U.generic_array(g.dims, tag=7, signed=True), bc)
                    if scheme == "implicit" and "T" not in terms and dt == 1.0:
                        # the initial field is given WITH ghost cells, which hold NaN placeholders: an implicit step built from
                        # matrix terms and the transient term uses the interior of the old field only
                        full0 = np.full(g.fshape, np.nan)
                        full0[tuple(slice(1, -1) for _ in range(g.d))] = U.generic_array(g.dims, tag=7, signed=True)
                        phi = pf.CellVariable(g.mesh, full0, bc)
                    I0 = [_integral(phi, V, mn == "cellvolume") for mn, V in ms]
                    A0 = [float(np.sum(V * np.abs(phi.value))) for _, V in ms]
                    kappa = 1.0
                    expd = [0.0 for _ in ms]     # drift allowed by the recorded seam findings

                    def add_expected(full, mode):
                        for mi_, (_, V_) in enumerate(ms):
                            for ax_ in range(g.d):
                                if closure[ax_] != "periodic":
                                    continue
                                md, mu = seam_mismatch(g, full, ax_, V_, met,
                                                       Darr=Darr if "D" in terms else None,
                                                       uarr=uarr if "U" in terms else None, ghosts=mode)
                                expd[mi_] += dt * (md - mu)
                    for step in range(3):
                        res["evals"] += 1
                        if scheme == "implicit":
                            eq = [pf.transientTerm(phi, dt, 1.0)]
                            if "D" in terms:
                                eq.append(-pf.diffusionTerm(D))
                            if "C" in terms:
                                eq.append(pf.convectionTerm(u))
                            if "U" in terms:
                                eq.append(pf.convectionUpwindTerm(u))
                            if "T" in terms:
                                eq.append(pf.convectionTVDupwindRHSTerm(u, phi, FL))
                            if step == 0:
                                Mtot = dense(phi._BCsTerm[0])
                                for t in eq:
                                    if isinstance(t, tuple):
                                        Mtot = Mtot + dense(t[0])
                                    elif getattr(t, "ndim", 0) == 2:
                                        Mtot = Mtot + dense(t)
                                try:
                                    kappa = float(np.linalg.cond(Mtot, np.inf))
                                except Exception:  # noqa: BLE001
                                    kappa = np.inf
                            pf.solvePDE(phi, eq)
                            add_expected(np.asarray(phi._value, dtype=float), "solver")
                        else:
                            add_expected(np.asarray(phi._value, dtype=float), "copy")
                            rhs = np.zeros(g.n)
                            if "D" in terms:
                                rhs = rhs + pf.divergenceTerm(D * pf.gradientTerm(phi))
                            if "C" in terms:
                                rhs = rhs - pf.divergenceTerm(u * pf.linearMean(phi))
                            if "U" in terms:
                                rhs = rhs - pf.divergenceTerm(u * pf.upwindMean(phi, u))
                            if "T" in terms:
                                rhs = rhs + pf.convectionTVDupwindRHSTerm(u, phi, FL)
                            phi = pf.solveExplicitPDE(phi, dt, rhs)
                    if not np.isfinite(kappa) or kappa * EPS > 1e-4:
                        res["precond_failed"] = res.get("precond_failed", 0) + 1
                        continue
                    for mi, (mname, V) in enumerate(ms):
                        I1 = _integral(phi, V, mname == "cellvolume")
                        A1 = float(np.sum(V * np.abs(phi.value)))
                        tol = 64 * EPS * max(kappa, 1.0) * max(A0[mi], A1) * 3 + 1e-300
                        if abs(I0[mi]) > 0:
                            res["nontrivial"] += 1
                        if not abs(I1 - I0[mi]) <= tol:
                            upw = ("U" in terms) or ("T" in terms)
                            tol2 = tol + 64 * EPS * abs(expd[mi]) * max(kappa, 1.0)
                            resid_ok = abs(I1 - I0[mi] - expd[mi]) <= tol2
                            if g.cls == "SphericalGrid3D" and mname == "cellvolume":
                                k = "C01:solve_closed:SphericalGrid3D:cellvolume_measure"
                            elif anyper and "T" in terms:
                                k = "C01:periodic_seam:upwind:solve:tvd"
                            elif anyper and upw and resid_ok:
                                k = "C01:periodic_seam:upwind:solve"
                            elif unequal and scheme == "explicit" and "D" in terms and resid_ok:
                                k = "C01:periodic_seam:unequal_ends:diffusion:solve_explicit"
                            else:
                                k = "C01:solve_closed:%s:%s:%s:%s" % (g.cls, scheme, "+".join(terms),
                                                                      "periodic" if anyper else "noflux")
                                if mname == "midpoint":
                                    k += ":midpoint_measure"
                            if k in seen:
                                continue
                            seen.add(k)
                            F.append({"key": k,
                                      "msg": "%s %s steps on %s, closure %s, terms %s, dt=%g: domain integral %.12g -> %.12g (tolerance %.3g; drift attributable to the recorded seam mismatch %.6g; measure %s)"
                                             % (3, scheme, U.spec_id(g.spec), list(closure), "+".join(terms), dt, I0[mi], I1, tol, expd[mi], mname),
                                      "detail": {"grid": U.spec_id(g.spec), "closure": list(closure), "terms": list(terms), "dt": dt,
                                                 "scheme": scheme, "I0": I0[mi], "I1": I1, "kappa": kappa, "expected_seam_drift": expd[mi]}})


def _boundary_flux(g, phi, D, u, terms, met, V):
    """Net outward flux through the domain boundary computed from the *reported* array
    (ghost cells) with reference areas: diffusion -D grad, central u*mean, upwind u*upwindMean."""
    full = np.asarray(phi._value, dtype=float)
    sizes = [np.asarray(getattr(g.mesh.cellsize, a)) for a in ("_x", "_y", "_z")[:g.d]]
    Da = g.face_arrays(D)
    ua = g.face_arrays(u)
    tot = 0.0
    for (ax, idx) in g.faces:
        if not g.is_bface(ax, idx):
            continue
        lo = [i + 1 for i in idx]
        lo[ax] = idx[ax]
        hi = list(lo)
        hi[ax] = idx[ax] + 1
        inner = hi if idx[ax] == 0 else lo
        ci = tuple(i - 1 for i in inner)
        A = met["area"][ax][idx] * V[ci] / met["vol"][ci]
        out_sign = -1.0 if idx[ax] == 0 else 1.0
        plo, phi_ = full[tuple(lo)], full[tuple(hi)]
        hfac = U.hfactor(g.cls, g.mesh, ax)[ci]
        dxf = 0.5 * (sizes[ax][idx[ax]] + sizes[ax][idx[ax] + 1]) * hfac
        flux = 0.0
        if "D" in terms:
            flux += -Da[ax][idx] * (phi_ - plo) / dxf
        uf = ua[ax][idx]
        if "C" in terms:
            flux += uf * 0.5 * (plo + phi_)       # ghost and end cell have equal size
        if "U" in terms:
            inflow = (uf > 0 and idx[ax] == 0) or (uf < 0 and idx[ax] != 0)
            if inflow or uf == 0:
                flux += uf * 0.5 * (plo + phi_)
            else:
                flux += uf * (plo if uf > 0 else phi_)
        tot += out_sign * A * flux
    return tot


def _solve_open_part(g, res):
    """Open boundaries: implicit step; (I_new - I_old)/dt == - net boundary flux of phi_new."""
    F = res["findings"]
    met = U.metric(g.cls, g.mesh)
    ms = measures(g)
    seen = set()
    D = U.generic_face(g.mesh, tag=31)
    u = U.generic_face(g.mesh, tag=33, signed=True)
    for kind in ("dirichlet", "robin"):
        for terms in (("D",), ("D", "C"), ("D", "U")):
            for dt in (2.0 ** -6, 1.0):
                bc = pf.BoundaryConditions(g.mesh)
                t = 0
                for ax in range(g.d):
                    for side in U.SIDES[ax]:
                        bf = getattr(bc, side)
                        t += 1
                        if kind == "dirichlet":
                            bf.a = 0.0
                            bf.b = 1.0
                            bf.c = 0.5 * t
                        else:
                            bf.a = 1.0
                            bf.b = 4.0 + t       # far from the singular combination a/(h dx) = +-b/2
                            bf.c = 0.25 * t
                if g.cls in ("PolarGrid2D", "CylindricalGrid3D", "SphericalGrid3D") and kind == "robin":
                    # keep a/(h*Delta) away from b/2 on angular faces: use larger b
                    for ax in range(1, g.d):
                        for side in U.SIDES[ax]:
                            getattr(bc, side).b = 64.0
                phi = pf.CellVariable(g.mesh, U.generic_array(g.dims, tag=9), bc)
                if not np.all(np.isfinite(phi._value)):
                    res["precond_failed"] = res.get("precond_failed", 0) + 1
                    continue
                I0 = [_integral(phi, V, mn == "cellvolume") for mn, V in ms]
                eq = [pf.transientTerm(phi, dt, 1.0), -pf.diffusionTerm(D)]
                if "C" in terms:
                    eq.append(pf.convectionTerm(u))
                if "U" in terms:
                    eq.append(pf.convectionUpwindTerm(u))
                Mtot = dense(phi._BCsTerm[0]) + sum(dense(t_[0] if isinstance(t_, tuple) else t_) for t_ in eq)
                kappa = float(np.linalg.cond(Mtot, np.inf))
                res["evals"] += 1
                pf.solvePDE(phi, eq)
                if not np.isfinite(kappa) or kappa * EPS > 1e-4:
                    res["precond_failed"] = res.get("precond_failed", 0) + 1
                    continue
                for mi, (mname, V) in enumerate(ms):
                    I1 = _integral(phi, V, mname == "cellvolume")
                    flux = _boundary_flux(g, phi, D, u, terms, met, V)
                    lhs = (I1 - I0[mi]) / dt
                    sc = (abs(I1) + abs(I0[mi])) / dt + abs(flux) + float(np.sum(V * np.abs(phi.value))) * (1 + 1 / dt)
                    tol = 64 * EPS * max(kappa, 1.0) * sc * 8 + 1e-300
                    res["nontrivial"] += 1
                    if not abs(lhs + flux) <= tol:
                        if g.cls == "SphericalGrid3D" and mname == "cellvolume":
                            k = "C01:solve_open:SphericalGrid3D:cellvolume_measure"
                        else:
                            k = "C01:solve_open:%s:%s:%s%s" % (g.cls, kind, "+".join(terms),
                                                              ":midpoint_measure" if mname == "midpoint" else "")
                        if k in seen:
                            continue
                        seen.add(k)
                        F.append({"key": k,
                                  "msg": "open boundaries (%s) on %s, terms %s, dt=%g: (I_new-I_old)/dt = %.12g but minus the net boundary flux from the reported boundary values = %.12g (tolerance %.3g, measure %s)"
                                         % (kind, U.spec_id(g.spec), "+".join(terms), dt, lhs, -flux, tol, mname),
                                  "detail": {"grid": U.spec_id(g.spec), "kind": kind, "terms": list(terms), "dt": dt}})


def weight(case):
    sh = case["grid"]["shape"]
    n = int(np.prod([k + 2 for k in sh]))
    if case["part"] == "op_big":
        return n
    w = {"op": 1, "tvd": 3 ** (max(sh) + 2) / 20.0, "periodic_op": 1, "solve_closed": 2 ** len(sh) * 3, "solve_open": 1}[case["part"]]
    return n * len(sh) * w


def run_case(case):
    g = Grid(case["grid"])
    res = {"evals": 0, "nontrivial": 0, "findings": [], "outcomes": {}}
    part = case["part"]
    if part == "tvd":
        _tvd_part(g, res, case.get("tier", "quick"))
    else:
        {"op": _op_part, "op_big": _op_big_part, "periodic_op": _periodic_op_part,
         "solve_closed": _solve_closed_part, "solve_open": _solve_open_part}[part](g, res)
    res["outcomes"] = {"%s:%s" % (part, "ok" if not res["findings"] else "viol"): 1}
    res["sample"] = {"grid": U.spec_id(g.spec), "part": part}
    return res
