"""C07 - discrete maximum principle: no overshoot, no negative concentrations.

The update is linear, so "never outside the range of the previous values and the Dirichlet
data, for any initial field" <=> the solution operator S = [S_old | S_bc] (response of the
new interior values to each unit previous value and each unit Dirichlet datum) has entries
>= 0 and row sums <= 1 (== 1 without sink).  S is obtained from the system the library
assembles (captured with a spy solver during a real solvePDE call on a generic field, whose
answer is cross-checked), so every initial field is covered at once.

Engine B with deviation bound over (BC set-up, D pattern, sink, dt, velocity), where the
velocity ranges over zero and +-every element of a basis of the discretely divergence-free
fields admissible for the BC set-up.
"""
import itertools

import numpy as np
import scipy.sparse as sp
from scipy.sparse.linalg import spsolve

from ..env import pf, EPS
from .. import universe as U
from ..opkit import Grid, dense
from .c06 import solenoidal_basis

ID = "C07"
LEVEL = "model_checking"
RULE = ("configurations = grid instance x all vectors (BC set-up, D pattern, sink, dt, velocity basis element and sign) "
        "with at most 2 deviations from the default (all-Dirichlet, D=1, no sink, dt=1, u=0); thorough: 3 deviations; every "
        "configuration yields the full solution operator; non-trivial: the velocity or a non-default coefficient is active")
ASSUMPTIONS = ["entries of S are compared with -64*eps*cond(M)*max|S|; configurations with cond*eps > 1e-4 are counted as "
               "preconditions_failed (extreme contrast with tiny dt)",
               "the dense inverse of the library-assembled matrix is used to obtain all columns of S at once; the library's own "
               "solve of a generic field is compared with it in every configuration"]
DTS = [10.0 ** k for k in (-4, -3, -2, -1, 0, 1, 2, 3, 4)]
SETUPS = ["dirichlet", "noflux", "periodic", "mixed"]
UMAGS = [1.0, 2.0 ** 12, 2.0 ** -40]        # cell Peclet numbers from ~1 to ~1e4 and creeping flow
DPATS = ["one", "zero_face", "checker_2e6", "checker_1e6", "axis_contrast"]
SHAPES = {1: [(3,), (1,)], 2: [(2, 3), (3, 1)], 3: [(2, 2, 2), (2, 1, 2), (1, 3, 1)]}


def bounds(tier):
    return {"velocity_magnitudes": ["4", "4*2^12", "4*2^-40"], "dt": [str(x) for x in DTS], "setups": SETUPS, "D_patterns": DPATS, "sink": [0, "generic>0"],
            "deviation_bound": 2 if tier == "quick" else 3, "steps": "1 (operator) + 2-step product"}


def cases(tier):
    out = []
    templates = ["U", "I"] if tier == "quick" else ["U", "G", "I"]
    for cls in U.CLASSES:
        d = U.dim(cls)
        shp = SHAPES[d] if tier == "quick" else U.shapes(d, "quick")
        for shape in shp:
            for t in templates:
                for org in (0, 1):
                    for setup in SETUPS:
                        sp_ = [t] * d
                        if setup == "periodic":
                            pax = U.periodic_axis(cls, shape, org)
                            if pax is None:
                                continue
                            sp_[pax] = "U"
                        if setup == "mixed" and d == 1:
                            continue
                        out.append({"grid": U.spec(cls, shape, tuple(sp_), org), "setup": setup, "tier": tier})
    return out


def weight(case):
    n = int(np.prod([k + 2 for k in case["grid"]["shape"]]))
    return n * n * len(case["grid"]["shape"])


def d_pattern(g, name):
    arrs = [np.ones(s) for s in g.face_shapes]
    if name == "zero_face":
        ax = g.d - 1
        idx = tuple(min(1, s - 1) for s in g.face_shapes[ax])
        arrs[ax][idx] = 0.0
    elif name.startswith("checker"):
        hi, lo = (2.0 ** 6, 2.0 ** -6) if name == "checker_2e6" else (1e3, 1e-3)
        for ax in range(g.d):
            par = np.indices(g.face_shapes[ax]).sum(axis=0) % 2
            arrs[ax] = np.where(par == 0, hi, lo)
    elif name == "axis_contrast":
        for ax in range(g.d):
            arrs[ax] = arrs[ax] * (1e3 if ax == 0 else 1e-2)
    return arrs


def make_bc(g, setup, cvals=None):
    """Dirichlet sides get the data cvals (flat list over Dirichlet faces) - default generic."""
    bc = pf.BoundaryConditions(g.mesh)
    kinds = U.AXES[g.cls]
    pax = U.periodic_axis(g.cls, g.dims, g.spec["org"]) if setup == "periodic" else None
    k = 0
    dir_sides = []
    for ax in range(g.d):
        for hi, side in enumerate(U.SIDES[ax]):
            bf = getattr(bc, side)
            if ax == pax:
                # either face declares the axis periodic: both / low only / high only, chosen from the grid
                if U.flag_mode(sum(g.dims), g.spec["org"], len(g.cls)) in ("both", ("lo", "hi")[hi]):
                    bf.periodic = True
                continue
            if setup == "noflux" or (setup == "mixed" and ax != 0):
                continue
            n = int(np.asarray(bf._c).size)
            bf.a = 0.0
            bf.b = 1.0
            if cvals is not None:
                bf.c = np.asarray(cvals[k:k + n], dtype=float).reshape(np.asarray(bf._c).shape)
            k += n
            dir_sides.append((ax, hi, n))
    return bc, dir_sides, k, pax


def admissible_fluxes(g, setup, pax, met):
    """Flux fields (area*velocity) of the divergence-free basis admissible for the set-up."""
    out = [("zero", [np.zeros(s) for s in g.face_shapes])]
    wall_axes = []
    for ax in range(g.d):
        if setup == "noflux" or (setup == "mixed" and ax != 0):
            wall_axes.append(ax)
    for label, Phi in solenoidal_basis(g, met):
        ok = True
        for ax in range(g.d):
            lo = [slice(None)] * g.d
            hi = [slice(None)] * g.d
            lo[ax], hi[ax] = 0, -1
            if ax in wall_axes and (np.any(Phi[ax][tuple(lo)] != 0) or np.any(Phi[ax][tuple(hi)] != 0)):
                ok = False
            if ax == pax and not np.array_equal(Phi[ax][tuple(lo)], Phi[ax][tuple(hi)]):
                ok = False
            A = met["area"][ax]
            if np.any((np.abs(A) <= 1e-14 * np.max(np.abs(A))) & (Phi[ax] != 0)):
                ok = False
        if ok:
            out.append((label, Phi))
    if pax is not None:
        # through-flow along the periodic axis: one unit of flux along each transverse line
        tshape = tuple(g.dims[a] for a in range(g.d) if a != pax)
        for tr in (np.ndindex(*tshape) if tshape else [()]):
            Phi = [np.zeros(s) for s in g.face_shapes]
            sl = list(tr)
            sl.insert(pax, slice(None))
            Phi[pax][tuple(sl)] = 1.0
            out.append(("throughflow%s" % (list(tr),), Phi))
    return out


def run_case(case):
    g = Grid(case["grid"])
    tier = case.get("tier", "quick")
    setup = case["setup"]
    res = {"evals": 0, "nontrivial": 0, "findings": [], "outcomes": {}}
    F = res["findings"]
    seen = set()
    gid = U.spec_id(g.spec)
    met = U.metric(g.cls, g.mesh)
    _, dir_sides, nc, pax = make_bc(g, setup)
    fluxes = admissible_fluxes(g, setup, pax, met)
    vel = []
    for label, Phi in fluxes:
        ua = []
        for ax in range(g.d):
            A = met["area"][ax]
            z = np.abs(A) <= 1e-14 * np.max(np.abs(A))
            ua.append(np.where(z, 0.0, Phi[ax] / np.where(z, 1.0, A)))
        if label == "zero":
            vel.append((label, ua))
        else:
            vel.append((label + ":+", [4.0 * a for a in ua]))
            vel.append((label + ":-", [-4.0 * a for a in ua]))
    dims_opts = [DPATS, [0, 1], DTS, list(range(len(vel))), UMAGS]
    default = (0, 0, DTS.index(1.0), 0, 0)
    bound = 2 if tier == "quick" else 3
    # all vectors within the deviation bound of the default
    vecs = {default}
    for k in range(1, bound + 1):
        for pos in itertools.combinations(range(5), k):
            ranges = [range(len(dims_opts[p])) for p in pos]
            for vals in itertools.product(*ranges):
                v = list(default)
                skip = False
                for p, x in zip(pos, vals):
                    if x == default[p]:
                        skip = True
                    v[p] = x
                if not skip:
                    vecs.add(tuple(v))
    inner = g.imask
    old = U.generic_array(g.dims, tag=601)
    beta_f = 0.5 + U.generic_array(g.dims, tag=603) / 16.0
    rows_in = np.flatnonzero(inner)
    cgen = U.generic_array((max(nc, 1),), tag=605)[:nc]
    for (di, bi, ti, vi, mi) in sorted(vecs):
        if mi and not vi:
            continue                    # a magnitude without a velocity is the default again
        dpat, dt = DPATS[di], DTS[ti]
        label, ua = vel[vi]
        if mi:
            label = "%s x %g" % (label, UMAGS[mi])
            ua = [a * UMAGS[mi] for a in ua]
        u = U.face_from_arrays(g.mesh, ua)
        if vi:
            # the velocity as a user would build it: a difference / sum of face variables (exact for these operands)
            u = (U.face_from_arrays(g.mesh, [2.0 * a for a in ua]) - u) + U.zero_face(g.mesh)
            if not all(np.array_equal(getattr(u, c_), a_) for c_, a_ in zip(U.COMP, ua)):
                k = "C07:velocity_arithmetic:%s" % g.cls
                if k not in seen:
                    seen.add(k)
                    F.append({"key": k, "msg": "%s: the velocity 2u - u + 0 built with FaceVariable arithmetic is not u (a discretely divergence-free field would stop being one)" % gid, "detail": {"grid": gid}})
                continue
        # precondition: discretely divergence-free
        div = np.asarray(pf.divergenceTerm(u), dtype=float)[rows_in]
        usc = max((float(np.max(np.abs(a))) for a in ua), default=0.0)
        if usc > 0 and np.any(np.abs(div) > 1e-10 * usc * 64):
            res["precond_failed"] = res.get("precond_failed", 0) + 1
            continue
        D = U.face_from_arrays(g.mesh, d_pattern(g, dpat))
        bc, _, _, _ = make_bc(g, setup, cgen)
        phi = pf.CellVariable(g.mesh, old.copy(), bc)
        eq = [pf.transientTerm(phi, dt, 1.0), -pf.diffusionTerm(D), pf.convectionUpwindTerm(u)]
        if bi:
            eq.append(pf.linearSourceTerm(pf.CellVariable(g.mesh, beta_f)))
        captured = {}

        def spy(M, rhs):
            captured["M"] = dense(M).copy()
            captured["rhs"] = np.array(rhs, dtype=float)
            return spsolve(sp.csr_array(M), rhs)
        pf.solvePDE(phi, eq, externalsolver=spy)
        res["evals"] += 1
        M = captured["M"]
        if not np.all(np.isfinite(M)):
            res["precond_failed"] = res.get("precond_failed", 0) + 1
            continue
        kappa = float(np.linalg.cond(M, np.inf))
        if not np.isfinite(kappa) or kappa * EPS > 1e-4:
            res["precond_failed"] = res.get("precond_failed", 0) + 1
            continue
        Minv = np.linalg.inv(M)
        # cross-check: the library's solution of the generic field is Minv*rhs
        x = (Minv @ captured["rhs"])[rows_in]
        got = np.asarray(phi.value, dtype=float).ravel()
        scale = max(1.0, float(np.max(np.abs(got))))
        if not np.all(np.abs(got - x) <= 64 * EPS * kappa * scale):
            k = "C07:harness_consistency"
            if k not in seen:
                seen.add(k)
                F.append({"key": k, "msg": "%s: library solution differs from inverse(M)*rhs by %.3g" % (gid, float(np.max(np.abs(got - x)))), "detail": {}})
            continue
        # S_old: d(new interior)/d(old interior) = Minv[:, interior] * alpha/dt
        S_old = Minv[np.ix_(rows_in, rows_in)] * (1.0 / dt)
        cols = [S_old]
        # S_bc: response to each unit Dirichlet datum, from the library's own boundary term
        if nc:
            _, r0 = pf.boundaryConditionsTerm(make_bc(g, setup, np.zeros(nc))[0])
            Sb = np.zeros((len(rows_in), nc))
            for j in range(nc):
                e = np.zeros(nc)
                e[j] = 1.0
                _, rj = pf.boundaryConditionsTerm(make_bc(g, setup, e)[0])
                Sb[:, j] = (Minv @ (np.asarray(rj) - np.asarray(r0)))[rows_in]
            cols.append(Sb)
        S = np.hstack(cols)
        res["nontrivial"] += 1 if (vi or di or bi) else 0
        tol = 64 * EPS * kappa * max(1.0, float(np.max(np.abs(S))))
        rs = S.sum(axis=1)
        neg = S < -tol
        over = rs > 1.0 + tol * S.shape[1]
        under = (not bi) and np.any(np.abs(rs - 1.0) > tol * S.shape[1])
        if neg.any() or over.any() or under:
            what = "negative entry %.3g" % float(S.min()) if neg.any() else ("row sum %.12g > 1" % float(rs.max()) if over.any()
                                                                             else "row sum %.12g != 1 without sink" % float(rs[np.argmax(np.abs(rs - 1))]))
            k = "C07:%s:%s:%s:%s" % ("negative" if neg.any() else "rowsum", g.cls, setup,
                                      "u" if vi else ("D:" + dpat if di else "base"))
            if k not in seen:
                seen.add(k)
                i = np.argwhere(neg)[0] if neg.any() else None
                F.append({"key": k,
                          "msg": "%s (%s BCs), D pattern %s, sink %s, dt=%g, velocity %s: solution operator has %s (tolerance %.3g)%s - a non-negative field bounded by the Dirichlet data can leave its range"
                                 % (gid, setup, dpat, bool(bi), dt, label, what, tol,
                                    "" if i is None else " at new cell #%d from %s #%d" % (i[0], "old cell" if i[1] < len(rows_in) else "Dirichlet datum", i[1])),
                          "detail": {"grid": gid, "setup": setup, "D": dpat, "sink": bool(bi), "dt": dt, "velocity": label}})
        # two steps: S_old^2 etc. stays non-negative with row sums <= 1 (product of the same operator);
        # run the real second step on a unit field to make sure nothing stateful breaks it
        if (di, bi, ti) == default[:3] or vi == 0:
            j0 = int(len(rows_in) // 2)
            e = np.zeros(g.dims)
            e.flat[j0] = 1.0
            bc2, _, _, _ = make_bc(g, setup, np.zeros(nc))
            p2 = pf.CellVariable(g.mesh, e, bc2)
            for _ in range(2):
                eq2 = [pf.transientTerm(p2, dt, 1.0), -pf.diffusionTerm(D), pf.convectionUpwindTerm(u)]
                if bi:
                    eq2.append(pf.linearSourceTerm(pf.CellVariable(g.mesh, beta_f)))
                pf.solvePDE(p2, eq2)
            res["evals"] += 2
            v2 = np.asarray(p2.value, dtype=float)
            # the real two-step run must be what the one-step operator predicts (S_old applied twice;
            # the Dirichlet data are zero here): nothing stateful may change between the steps
            pred = (S_old @ (S_old @ e.ravel())).reshape(v2.shape)
            if not np.all(np.abs(v2 - pred) <= 64 * EPS * kappa * 4 + 1e-300):
                k = "C07:two_steps_vs_operator:%s:%s" % (g.cls, "u" if vi else "base")
                if k not in seen:
                    seen.add(k)
                    F.append({"key": k, "msg": "%s (%s BCs), dt=%g, velocity %s: two real solvePDE steps with terms rebuilt from the same coefficient objects differ from the one-step solution operator applied twice by %.3g"
                                               % (gid, setup, dt, label, float(np.max(np.abs(v2 - pred)))), "detail": {"grid": gid, "setup": setup, "dt": dt, "velocity": label}})
            if np.any(v2 < -tol * 4) or np.any(v2 > 1.0 + tol * 4):
                k = "C07:two_steps:%s:%s" % (g.cls, setup)
                if k not in seen:
                    seen.add(k)
                    F.append({"key": k, "msg": "%s (%s BCs), dt=%g, velocity %s: two steps from a unit field leave [0,1]: min %.3g max %.3g"
                                               % (gid, setup, dt, label, float(v2.min()), float(v2.max())), "detail": {}})
    res["outcomes"] = {"%s:%s" % (setup, "ok" if not F else "viol"): 1}
    res["sample"] = {"grid": gid, "setup": setup, "configurations": len(vecs), "velocities": len(vel)}
    return res
