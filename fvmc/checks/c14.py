"""C14 - variable algebra is elementwise, side-effect free and yields independent objects.

Engine C/D: every operator and reflected operator x operand kinds (variable o variable,
variable o scalar, scalar o variable, variable o ndarray) x CellVariable on 9 classes x 3 BC
set-ups and FaceVariable on 9 classes; funceval/celleval/faceeval with 1..8 arguments; all
expression trees of depth 2 (thorough: 3) over that alphabet; copy().
Oracle: numpy on interior values (components); operands frozen and byte-identical afterwards;
no shared memory; cross-modification probes in both directions; the result carries the
left-most variable operand's BCs (equal values, distinct object) and a ghost layer consistent
with them.
"""
import itertools
import operator

import numpy as np

from ..env import pf
from .. import universe as U
from .c15 import arrays_of

ID = "C14"
LEVEL = "model_checking"
RULE = ("complete enumeration: operator x operand-kind x class x BC set-up (depth 1) and all expression trees of the "
        "depth bound over {binary operators} x {operand kinds}; every evaluation compares with numpy on interiors and "
        "runs the independence probes; each (tree, class, BC set-up) is one distinct non-trivial case")
ASSUMPTIONS = ["ndarray operands are used on the right only (as the property states)",
               "functions passed to funceval/celleval/faceeval return new arrays (np.add, np.exp, ...)"]

BIN = [("add", operator.add), ("sub", operator.sub), ("mul", operator.mul), ("truediv", operator.truediv),
       ("pow", operator.pow), ("gt", operator.gt), ("ge", operator.ge), ("lt", operator.lt), ("le", operator.le),
       ("and", operator.and_), ("or", operator.or_)]
UN = [("neg", operator.neg), ("abs", operator.abs)]
KINDS = ["vv", "vs", "sv", "va"]
SHAPES = {1: (3,), 2: (2, 3), 3: (2, 1, 2)}


def bounds(tier):
    return {"tree_depth": 2 if tier == "quick" else 3, "operators": [n for n, _ in BIN + UN], "operand_kinds": KINDS,
            "bc_setups": ["noflux", "robin", "periodic+dirichlet"], "operand_states": ["fresh", "applied", "solved", "special values"],
            "comparison": "bitwise incl. sign of zero (either of two reference evaluations)"}


def cases(tier):
    out = []
    for cls in U.CLASSES:
        for setup in ("noflux", "robin", "periodic"):
            # operand state: just constructed (BC dirty flags still raised), after apply_BCs(), after a solvePDE
            for state in ("fresh", "applied", "solved", "special"):
                out.append({"cls": cls, "setup": setup, "part": "ops", "state": state})
                out.append({"cls": cls, "setup": setup, "part": "eval", "state": state})
            for i in range(len(BIN)):
                for state in (("fresh", "applied", "special") if tier == "quick" else ("fresh", "applied", "solved", "special")):
                    out.append({"cls": cls, "setup": setup, "part": "trees", "first": i, "depth": 2 if tier == "quick" else 3,
                                "state": state})
        out.append({"cls": cls, "part": "face"})
        out.append({"cls": cls, "part": "faceforms"})
    return out


def weight(case):
    return {"ops": 5, "trees": 20 if case.get("depth", 2) == 2 else 400, "face": 3, "faceforms": 1, "eval": 2}[case["part"]] * U.dim(case["cls"])


def make_bc(mesh, cls, setup, tag):
    d = U.dim(cls)
    bc = pf.BoundaryConditions(mesh)
    kinds = U.AXES[cls]
    if setup == "robin":
        t = tag
        for ax in range(d):
            for side in U.SIDES[ax]:
                bf = getattr(bc, side)
                t += 1
                sh = np.asarray(bf.a).shape
                bf.a = 1.0 + 0.0 * U.generic_array(sh, tag=t)
                bf.b = 64.0 + U.generic_array(sh, tag=t + 20)
                bf.c = U.generic_array(sh, tag=t + 40, signed=True)
    elif setup == "periodic":
        pax = U.periodic_axis(cls, [int(k) for k in mesh.dims], 1)
        for ax in range(d):
            for hi_, side in enumerate(U.SIDES[ax]):
                if ax == pax:
                    if U.flag_mode(len(cls), tag) in ("both", ("lo", "hi")[hi_]):
                        getattr(bc, side).periodic = True
                else:
                    getattr(bc, side).fixedValue(1.25 + tag)
    return bc


def bc_bytes(bc):
    return tuple((np.asarray(getattr(bc, s)._a).tobytes(), np.asarray(getattr(bc, s)._b).tobytes(),
                  np.asarray(getattr(bc, s)._c).tobytes(), bool(getattr(bc, s)._periodic))
                 for s in ("left", "right", "bottom", "top", "back", "front"))


def snap(v):
    out = []
    arrays_of(v, "v", out)
    return [(n, a.tobytes()) for n, a in out if not n.startswith("v.domain")]


def freeze(v, on=True):
    out = []
    arrays_of(v, "v", out)
    for n, a in out:
        try:
            a.flags.writeable = not on
        except ValueError:
            pass


class Ctx:
    def __init__(self, cls, setup, state="fresh"):
        self.state = state
        self.cls = cls
        self.d = U.dim(cls)
        self.spec = U.spec(cls, SHAPES[self.d], ("I",) * self.d, 1)
        self.mesh = U.make_mesh(self.spec)
        self.dims = tuple(int(k) for k in self.mesh.dims)
        self.setup = setup
        self.gid = U.spec_id(self.spec)

    def var(self, i):
        vals = U.generic_array(self.dims, tag=120 + 7 * i) / 8.0 + 0.5        # positive, distinct, O(1)
        if self.state == "special":
            # values that coincide exactly with the scalars / with each other / with zero, and mixed signs: results
            # contain exact zeros (of either sign), infinities and NaNs, which must be numpy's, bit for bit
            sp_ = [self.scalar(i), np.nan, 0.0, np.inf, -self.scalar(i), -0.0, -np.inf, 1.0, self.scalar(i + 1), 2.0 ** -1074, -1.0]
            vals = vals.copy()
            for k in range(vals.size):
                if k % 2 == 0:
                    vals.flat[k] = sp_[(k // 2 + i) % len(sp_)]
        v = pf.CellVariable(self.mesh, vals, make_bc(self.mesh, self.cls, self.setup, 3 * i))
        if self.state == "applied":
            v.apply_BCs()
        elif self.state == "solved":
            one = pf.CellVariable(self.mesh, 1.0)
            pf.solvePDE(v, [pf.linearSourceTerm(one), pf.constantSourceTerm(pf.CellVariable(self.mesh, vals))])
        return v

    def scalar(self, i):
        return [1.5, 0.75, 2.0][i % 3]

    def arr(self, i):
        if self.state == "special":      # an integer-typed ndarray on the right, zeros and negatives included
            n = int(np.prod(self.dims))
            return (np.arange(n, dtype=np.int64).reshape(self.dims) % 4) - 1
        return U.generic_array(self.dims, tag=140 + i) / 16.0 + 0.25


def operand(ctx, kind, i):
    """(left, right, numpy-left, numpy-right, left-most variable) for operand kind."""
    if kind == "vv":
        a, b = ctx.var(i), ctx.var(i + 1)
        return a, b, np.array(a.value), np.array(b.value), a
    if kind == "vs":
        a, s = ctx.var(i), ctx.scalar(i)
        return a, s, np.array(a.value), s, a
    if kind == "sv":
        s, b = ctx.scalar(i), ctx.var(i)
        return s, b, s, np.array(b.value), b
    a, r = ctx.var(i), ctx.arr(i)
    return a, r, np.array(a.value), r, a


def same_bits(got, want):
    """Elementwise identical including the sign of zeros and the positions of NaN/inf."""
    got = np.asarray(got)
    want = np.asarray(want)
    if got.shape != want.shape:
        return False
    g = got.astype(float)
    w = want.astype(float)
    if not np.array_equal(g, w, equal_nan=True):
        return False
    fin = ~np.isnan(w)
    return bool(np.array_equal(np.signbit(g[fin]), np.signbit(w[fin])))


def np_apply(name, fn, x, y):
    if name == "and":
        return np.logical_and(x, y)
    if name == "or":
        return np.logical_or(x, y)
    return fn(x, y)


def check_result(ctx, res, F, seen, what, r, want, lead, operands, want_alt=None):
    """Common checks on a CellVariable result."""
    def add(kind, msg):
        k = "C14:%s:%s" % (kind, what.split("|")[0])
        if k not in seen:
            seen.add(k)
            F.append({"key": k, "msg": "%s on %s (%s BCs, operands %s): %s" % (what, ctx.gid, ctx.setup, ctx.state, msg), "detail": {"grid": ctx.gid, "state": ctx.state}})
    res["evals"] += 1
    res["nontrivial"] += 1
    if not isinstance(r, pf.CellVariable):
        add("type", "result is %s" % type(r).__name__)
        return
    got = np.asarray(r.value)
    if got.shape != np.shape(want) or not np.array_equal(got.astype(float), np.asarray(want).astype(float), equal_nan=True):
        add("elementwise", "interior values differ from numpy applied to the operands' interior values")
    elif not same_bits(got, want) and not (want_alt is not None and same_bits(got, want_alt)):
        add("elementwise_signed_zero", "interior values differ from numpy applied to the operands' interior values in the sign of a zero "
            "(1/x, arctan2, copysign of the result differ)")
    if any(r is o for o in operands):
        add("not_new", "result is one of the operands")
    # BCs: equal to the left-most variable operand's, distinct object
    if r.BCs is lead.BCs:
        add("bc_shared", "result shares the BC object of its operand")
    elif bc_bytes(r.BCs) != bc_bytes(lead.BCs):
        add("bc_carry", "result does not carry the boundary conditions of its left-most variable operand")
    # ghost layer consistent with the carried BCs
    fresh = pf.CellVariable(ctx.mesh, np.array(r.value, dtype=float), make_copy_bc(ctx.mesh, r.BCs))
    if not np.array_equal(np.asarray(fresh._value), np.asarray(r._value), equal_nan=True):
        add("ghosts", "ghost layer is not the one its boundary conditions give for its interior values")
    # no shared memory with operands
    ra = []
    arrays_of(r, "r", ra)
    for o in operands:
        if isinstance(o, (pf.CellVariable, pf.FaceVariable)):
            oa = []
            arrays_of(o, "o", oa)
            for rn, x in ra:
                if rn.startswith("r.domain") or x.size == 0:
                    continue
                for on, y in oa:
                    if on.startswith("o.domain") or y.size == 0:
                        continue
                    if np.shares_memory(x, y):
                        add("shares_memory", "%s shares memory with operand %s" % (rn, on))


def make_copy_bc(mesh, bc):
    nb = pf.BoundaryConditions(mesh)
    for side in ("left", "right", "bottom", "top", "back", "front"):
        o, n = getattr(bc, side), getattr(nb, side)
        if np.asarray(o._a).size:
            n.a = np.array(o._a)
            n.b = np.array(o._b)
            n.c = np.array(o._c)
        n.periodic = bool(o._periodic)
    return nb


def probe_independence(ctx, F, seen, what, r, operands):
    vars_ = [o for o in operands if isinstance(o, pf.CellVariable)]
    for o in vars_:
        freeze(o, False)
    before = [snap(o) for o in vars_]
    side = U.SIDES[0][0]
    r.value = np.asarray(r.value, dtype=float) * 0 + 123.0
    getattr(r.BCs, side).fixedValue(55.0)
    getattr(r.BCs, U.SIDES[ctx.d - 1][1]).periodic = True
    if [snap(o) for o in vars_] != before:
        k = "C14:result_affects_operand:%s" % what.split("|")[0]
        if k not in seen:
            seen.add(k)
            F.append({"key": k, "msg": "%s on %s: modifying the result changed an operand" % (what, ctx.gid), "detail": {}})
    rb = snap(r)
    for o in vars_:
        o.value = np.asarray(o.value) * 0 - 7.0
        getattr(o.BCs, side).fixedValue(-3.0)
        o.apply_BCs()
    if snap(r) != rb:
        k = "C14:operand_affects_result:%s" % what.split("|")[0]
        if k not in seen:
            seen.add(k)
            F.append({"key": k, "msg": "%s on %s: modifying an operand changed the result" % (what, ctx.gid), "detail": {}})


def _ops_part(ctx, res):
    F, seen = res["findings"], set()
    combos = [(nf, kind, None) for nf, kind in itertools.product(BIN, KINDS)]
    # identity / absorbing scalars (0 and 1) on either side: shortcuts for them must still give new objects
    combos += [(nf, kind, sc) for nf in BIN for kind in ("vs", "sv") for sc in (0.0, 1.0, 0, 1, True, False)]
    for (name, fn), kind, special in combos:
        a, b, na, nb, lead = operand(ctx, kind, 0)
        if special is not None:
            if kind == "vs":
                b = nb = special
            else:
                a = na = special
        ops_ = [a, b]
        vs = [o for o in ops_ if isinstance(o, pf.CellVariable)]
        before = [snap(o) for o in vs]
        for o in vs:
            freeze(o)
        what = "%s:%s%s|" % (name, kind, "" if special is None else ":scalar=%r" % (special,))
        try:
            r = fn(a, b)
        except Exception as e:  # noqa: BLE001
            k = "C14:%s:%s:%s" % ("writes_operand" if "read-only" in str(e) else "exception", name, kind)
            if k not in seen:
                seen.add(k)
                F.append({"key": k, "msg": "%s %s on %s raises %s: %s" % (name, kind, ctx.gid, type(e).__name__, str(e)[:100]), "detail": {}})
            res["evals"] += 1
            continue
        if [snap(o) for o in vs] != before:
            k = "C14:operand_changed:%s:%s" % (name, kind)
            if k not in seen:
                seen.add(k)
                F.append({"key": k, "msg": "%s %s on %s changed an operand" % (name, kind, ctx.gid), "detail": {}})
        check_result(ctx, res, F, seen, what, r, np_apply(name, fn, na, nb), lead, ops_)
        probe_independence(ctx, F, seen, what, r, ops_)
    for name, fn in UN:
        a = ctx.var(0)
        a.value = np.asarray(a.value) - 1.0          # mixed signs
        a.apply_BCs()
        before = snap(a)
        freeze(a)
        r = fn(a)
        if snap(a) != before:
            F.append({"key": "C14:operand_changed:%s" % name, "msg": "%s changed its operand" % name, "detail": {}})
        check_result(ctx, res, F, seen, "%s:v|" % name, r, fn(np.array(a.value)), a, [a])
        probe_independence(ctx, F, seen, "%s:v|" % name, r, [a])
    # copy(): equal and fully independent
    a = ctx.var(2)
    c = a.copy()
    res["evals"] += 1
    res["nontrivial"] += 1
    if snap(a) != snap(c) or c.BCs is a.BCs or np.shares_memory(np.asarray(a._value), np.asarray(c._value)):
        F.append({"key": "C14:copy_not_equal_or_shared", "msg": "copy() on %s is not an equal, separately stored variable" % ctx.gid, "detail": {}})
    probe_independence(ctx, F, seen, "copy|", c, [a])
    # copy() of variables whose ghost layer is not (yet) the one their BCs give: built from an array that includes the
    # ghost cells, returned by solveMatrixPDE, edited (BCs or values) and not refreshed.  "Equal" means equal as it is:
    # interior, boundary values (ghost layer, plot profile), BCs and pending-change flags.
    def dirty_variants():
        full = U.generic_array(tuple(k + 2 for k in ctx.dims), tag=161, signed=True)
        yield "ghost-including array", pf.CellVariable(ctx.mesh, full.copy(), make_bc(ctx.mesh, ctx.cls, ctx.setup, 1))
        one = pf.CellVariable(ctx.mesh, 1.0)
        Mbc, rbc = pf.boundaryConditionsTerm(make_bc(ctx.mesh, ctx.cls, "robin", 2))
        yield "result of solveMatrixPDE", pf.solveMatrixPDE(ctx.mesh, Mbc + pf.linearSourceTerm(one), rbc + pf.constantSourceTerm(ctx.var(1)))
        v = ctx.var(0)
        v.apply_BCs()
        getattr(v.BCs, U.SIDES[0][1]).fixedValue(7.5)
        yield "BC edited, not refreshed", v
        v = ctx.var(1)
        v.apply_BCs()
        v.value = np.asarray(v.value) * 2.0 + 1.0
        yield "value assigned, not refreshed", v
        v = ctx.var(2)
        v.apply_BCs()
        v.value[(0,) * ctx.d] = -3.0
        yield "one value edited, not refreshed", v
    for label, a in dirty_variants():
        res["evals"] += 1
        res["nontrivial"] += 1
        try:
            prof_a = [np.array(x) for x in a.plotprofile()]
            c = a.copy()
            # what a user can observe: interior and boundary values, boundary conditions (the cached boundary term and the
            # pending-change flags are internal: a copy may be "cleaner" than its original)
            same = (np.array_equal(np.asarray(a._value), np.asarray(c._value), equal_nan=True) and bc_bytes(a.BCs) == bc_bytes(c.BCs)
                    and all(np.array_equal(x, y, equal_nan=True) for x, y in zip(prof_a, c.plotprofile())))
        except Exception as e:  # noqa: BLE001
            F.append({"key": "C14:copy_exception", "msg": "copy() of a variable (%s) on %s raises %s: %s" % (label, ctx.gid, type(e).__name__, str(e)[:100]), "detail": {}})
            continue
        if not same or c.BCs is a.BCs or np.shares_memory(np.asarray(a._value), np.asarray(c._value)):
            k = "C14:copy_not_equal:%s" % label.split(",")[0].replace(" ", "_")
            if k not in seen:
                seen.add(k)
                F.append({"key": k, "msg": "copy() of a variable (%s) on %s (%s BCs) is not equal to its original (interior, boundary values, BCs, flags) or shares storage with it"
                                           % (label, ctx.gid, ctx.setup), "detail": {"grid": ctx.gid}})


def _trees_part(ctx, res, first, depth):
    """All expression trees op_k(...op2(op1(x, y), z)...) with op1 fixed by the case."""
    F, seen = res["findings"], set()
    name1, fn1 = BIN[first]
    for kind1 in KINDS:
        a, b, na, nb, lead = operand(ctx, kind1, 0)
        w1 = np_apply(name1, fn1, na, nb)
        level = [("%s:%s" % (name1, kind1), fn1(a, b), w1, lead, w1)]
        for dpt in range(2, depth + 1):
            nxt = []
            for desc, node, nnode, lead_, nnode_native in level:
                if not isinstance(node, pf.CellVariable):
                    continue
                was_bool = np.asarray(nnode_native).dtype == bool
                # two reference evaluations: intermediate results held as floats (what a CellVariable documents) and in
                # numpy's native result type (what the 1-D periodic path keeps); they differ only in the sign of zeros
                nn = np.asarray(nnode, dtype=float)
                nn_nat = np.asarray(nnode_native)
                for (name2, fn2), kind2 in itertools.product(BIN, ("vv", "vs", "sv", "va")):
                    if name2 == "pow" and (was_bool or np.any(np.asarray(nn, dtype=float) <= 0) or np.any(np.abs(np.asarray(nn, dtype=float)) > 64)):
                        continue
                    if kind2 == "vv":
                        o = ctx.var(3)
                        l, r_, nl, nr, ld = node, o, nn, np.array(o.value), lead_
                        al, ar = nn_nat, nr
                    elif kind2 == "vs":
                        l, r_, nl, nr, ld = node, 1.5, nn, 1.5, lead_
                        al, ar = nn_nat, nr
                    elif kind2 == "sv":
                        l, r_, nl, nr, ld = 0.75, node, 0.75, nn, lead_
                        al, ar = nl, nn_nat
                    else:
                        arr = ctx.arr(3)
                        l, r_, nl, nr, ld = node, arr, nn, arr, lead_
                        al, ar = nn_nat, nr
                    what = "%s(%s):%s|%s" % (name2, kind2, desc, "")
                    try:
                        out = fn2(l, r_)
                        want = np_apply(name2, fn2, nl, nr)
                        want_nat = np_apply(name2, fn2, al, ar)
                    except Exception as e:  # noqa: BLE001
                        k = "C14:tree_exception:%s:%s" % (name2, kind2)
                        if k not in seen:
                            seen.add(k)
                            F.append({"key": k, "msg": "tree %s on %s raises %s: %s" % (what, ctx.gid, type(e).__name__, str(e)[:100]), "detail": {}})
                        continue
                    check_result(ctx, res, F, seen, "tree:%s(%s)|%s" % (name2, kind2, desc), out, want, ld,
                                 [x for x in (l, r_) if isinstance(x, pf.CellVariable)], want_alt=want_nat)
                    if dpt < depth:
                        nxt.append(("%s(%s)<-%s" % (name2, kind2, desc), out, want, ld, want_nat))
            level = nxt


def _face_part(ctx, res):
    F, seen = res["findings"], set()
    m = ctx.mesh

    def fv(i, signed=False, special=False):
        f = U.generic_face(m, tag=150 + i, signed=signed)
        for c in U.COMP[:ctx.d]:
            arr = getattr(f, c) / 8.0 + (0.0 if signed else 0.5)
            if special:     # values equal to the scalar operands, zeros of both signs, negatives
                sp_ = [1.5, np.nan, 0.0, np.inf, -1.5, 0.75, -0.0, -np.inf, 1.0, -0.75, 2.0 ** -1074]
                for k in range(0, arr.size, 2):
                    arr.flat[k] = sp_[(k // 2 + i) % len(sp_)]
            setattr(f, c, arr)
        return f
    for (name, fn), kind, special in [(nf, kd, sp_) for nf, kd in itertools.product(BIN, KINDS) for sp_ in (False, True)]:
        if kind == "va":
            continue        # a single ndarray cannot match the differently shaped components
        a = fv(0, special=special) if kind != "sv" else 1.5
        b = fv(1, special=special) if kind in ("vv", "sv") else 0.75
        ops_ = [x for x in (a, b) if isinstance(x, pf.FaceVariable)]
        before = [snap(o) for o in ops_]
        for o in ops_:
            freeze(o)
        res["evals"] += 1
        res["nontrivial"] += 1
        try:
            r = fn(a, b)
        except Exception as e:  # noqa: BLE001
            k = "C14:face_exception:%s:%s" % (name, kind)
            if k not in seen:
                seen.add(k)
                F.append({"key": k, "msg": "FaceVariable %s %s on %s raises %s: %s" % (name, kind, ctx.gid, type(e).__name__, str(e)[:100]), "detail": {}})
            continue
        if [snap(o) for o in ops_] != before:
            F.append({"key": "C14:face_operand_changed:%s" % name, "msg": "FaceVariable %s changed an operand" % name, "detail": {}})
        ok = isinstance(r, pf.FaceVariable)
        for c in U.COMP:
            if not ok:
                break
            x = getattr(a, c) if isinstance(a, pf.FaceVariable) else a
            y = getattr(b, c) if isinstance(b, pf.FaceVariable) else b
            want = np_apply(name, fn, x, y)
            got = getattr(r, c)
            if np.shape(got) != np.shape(want) or not same_bits(got, want):
                ok = False
            for o in ops_:
                if np.size(got) and np.shares_memory(np.asarray(got), np.asarray(getattr(o, c))):
                    k = "C14:face_shares_memory:%s" % name
                    if k not in seen:
                        seen.add(k)
                        F.append({"key": k, "msg": "FaceVariable %s %s: result component %s shares memory with an operand" % (name, kind, c), "detail": {}})
        if not ok:
            k = "C14:face_elementwise:%s:%s" % (name, kind)
            if k not in seen:
                seen.add(k)
                F.append({"key": k, "msg": "FaceVariable %s %s on %s is not numpy applied component by component" % (name, kind, ctx.gid), "detail": {}})
    for name, fn in UN:
        a = fv(2, signed=True)
        b4 = snap(a)
        freeze(a)
        r = fn(a)
        res["evals"] += 1
        res["nontrivial"] += 1
        if snap(a) != b4 or not all(np.array_equal(getattr(r, c), fn(getattr(a, c)), equal_nan=True) for c in U.COMP) or \
                any(np.size(getattr(r, c)) and np.shares_memory(getattr(r, c), getattr(a, c)) for c in U.COMP):
            F.append({"key": "C14:face_unary:%s" % name, "msg": "FaceVariable %s on %s wrong / not independent" % (name, ctx.gid), "detail": {}})


def _faceforms_part(ctx, res):
    """FaceVariable(mesh, scalar) and FaceVariable(mesh, vector): every component has the shape of that axis's
    faces and holds the given (component of the) value; components are separately stored."""
    F = res["findings"]
    m = ctx.mesh
    shapes = U.face_shapes(m)
    vec = [1.5, -0.25, 4.0][:ctx.d]
    forms = [("python float", 2.5, [2.5] * ctx.d), ("python int", 3, [3.0] * ctx.d), ("numpy float", np.float64(0.75), [0.75] * ctx.d),
             ("negative float", -1.25, [-1.25] * ctx.d), ("zero", 0.0, [0.0] * ctx.d), ("list", list(vec), vec), ("tuple", tuple(vec), vec),
             ("ndarray", np.array(vec), vec), ("int ndarray", np.array([2, -1, 3][:ctx.d]), [2.0, -1.0, 3.0][:ctx.d])]
    for label, arg, want in forms:
        res["evals"] += 1
        res["nontrivial"] += 1
        try:
            f = pf.FaceVariable(m, arg)
        except Exception as e:  # noqa: BLE001
            F.append({"key": "C14:faceform_exception:%s" % label, "msg": "FaceVariable(%s, %s) raises %s: %s"
                      % (ctx.gid, label, type(e).__name__, str(e)[:100]), "detail": {}})
            continue
        comps = [np.asarray(getattr(f, c)) for c in U.COMP[:ctx.d]]
        ok = all(c.shape == s and np.array_equal(c.astype(float), np.full(s, w)) for c, s, w in zip(comps, shapes, want))
        ok = ok and all(np.asarray(getattr(f, c)).size == 0 for c in U.COMP[ctx.d:])
        for i in range(ctx.d):
            for j in range(i + 1, ctx.d):
                ok = ok and not np.shares_memory(comps[i], comps[j])
        if ok:      # a later in-place edit of one component must not leak into another variable built the same way
            g2 = pf.FaceVariable(m, arg)
            comps[0][...] = 99.0
            ok = not np.any(np.asarray(getattr(g2, U.COMP[0])) == 99.0)
        if not ok:
            F.append({"key": "C14:faceform:%s" % label.split()[0], "msg": "FaceVariable(%s, %s = %r): components are not full face-shaped arrays of the given value(s)"
                      % (ctx.gid, label, arg), "detail": {}})


def _eval_part(ctx, res):
    F = res["findings"]
    vs = [ctx.var(i) for i in range(8)]
    fs = []
    for i in range(8):
        f = U.generic_face(ctx.mesh, tag=170 + i, signed=True)
        fs.append(f)
    for n in range(1, 9):
        def fsum(*xs):
            out = xs[0] * 1.0
            for k, x in enumerate(xs[1:]):
                out = out + (k + 2) * x
            return out
        for nm, fn in (("funceval", pf.funceval), ("celleval", pf.celleval)):
            ops_ = vs[:n]
            before = [snap(o) for o in ops_]
            for o in ops_:
                freeze(o)
            res["evals"] += 1
            res["nontrivial"] += 1
            try:
                r = fn(fsum, *ops_)
            except Exception as e:  # noqa: BLE001
                F.append({"key": "C14:%s:exception:n=%d" % (nm, n), "msg": "%s with %d arguments raises %s: %s" % (nm, n, type(e).__name__, e), "detail": {}})
                continue
            for o in ops_:
                freeze(o, False)
            want = fsum(*[np.array(o.value) for o in ops_])
            if r is None or not np.array_equal(np.asarray(r.value), want, equal_nan=True) or [snap(o) for o in ops_] != before \
                    or r.BCs is ops_[0].BCs or bc_bytes(r.BCs) != bc_bytes(ops_[0].BCs):
                F.append({"key": "C14:%s:n=%d" % (nm, n), "msg": "%s with %d arguments on %s: wrong values, changed operand or BCs not carried from the first argument"
                                                          % (nm, n, ctx.gid), "detail": {}})
        ops_ = fs[:n]
        before = [snap(o) for o in ops_]
        res["evals"] += 1
        res["nontrivial"] += 1
        try:
            r = pf.faceeval(fsum, *ops_)
        except Exception as e:  # noqa: BLE001
            F.append({"key": "C14:faceeval:exception:n=%d" % n, "msg": "faceeval with %d arguments raises %s: %s" % (n, type(e).__name__, e), "detail": {}})
            continue
        ok = r is not None and [snap(o) for o in ops_] == before
        if ok:
            for c in U.COMP:
                if not np.array_equal(getattr(r, c), fsum(*[getattr(o, c) for o in ops_]), equal_nan=True):
                    ok = False
        if not ok:
            F.append({"key": "C14:faceeval:n=%d" % n, "msg": "faceeval with %d arguments on %s: wrong values or changed operand" % (n, ctx.gid), "detail": {}})


def run_case(case):
    res = {"evals": 0, "nontrivial": 0, "findings": [], "outcomes": {}}
    ctx = Ctx(case["cls"], case.get("setup", "noflux"), case.get("state", "fresh"))
    part = case["part"]
    if part == "ops":
        _ops_part(ctx, res)
    elif part == "trees":
        _trees_part(ctx, res, case["first"], case["depth"])
    elif part == "face":
        _face_part(ctx, res)
    elif part == "faceforms":
        _faceforms_part(ctx, res)
    else:
        _eval_part(ctx, res)
    res["outcomes"] = {"%s:%s" % (part, "ok" if not res["findings"] else "viol"): 1}
    res["sample"] = dict(case)
    return res
