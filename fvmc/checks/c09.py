"""C09 - no stale state: any edit history followed by a solve equals a fresh start.

Engine C (explicit-state BFS over operation histories on the real objects).  World = two
variable slots on one mesh; menu = the supported edits of the property (BC utility methods,
coefficient assignment / slice / index assignment, periodic toggles, value assignment /
index assignment / in-place add, update_value, copy, arithmetic, sharing a BC object,
apply_BCs, solvePDE, solveExplicitPDE).  Invariants evaluated in every state (on a world
rebuilt from scratch from the state's history):
  I1 solvePDE(v)       == solvePDE(fresh variable built from v's visible state)
  I2 solveExplicitPDE  == same on the fresh variable
  I3 apply_BCs()       -> ghost layer equals the fresh ghost layer
  I4 no exception from any supported operation
  I5 variables that do not deliberately share a BC object share no memory and cannot
     influence each other
"""
import copy

import numpy as np

from ..env import pf
from .. import universe as U
from .. import histbfs

ID = "C09"
LEVEL = "model_checking"
RULE = ("explicit-state BFS: a state is the pair of variable slots (BC sharing topology, BC coefficient bytes, periodic "
        "flags, dirty bits, cache digest, ghost freshness); transitions are the public-API operations of the menu; states "
        "are merged by canonical key; invariants I1-I5 are evaluated once per state on objects rebuilt by replaying the "
        "state's history from scratch; samples are operation histories")
ASSUMPTIONS = [
    "interior values are not part of the state key: no library code branches on cell values; all fields are generic "
    "(all entries distinct) so a stale ghost or cache changes the result",
    "edits that TrackedArray documents as untracked (np.copyto, in-place ufuncs on retained views) are not in the menu",
    "edit constants come from a finite alphabet chosen so that no singular boundary condition is reachable",
]
DT = 0.125
SCOPE = ("all operation histories up to the depth bound over the finite menu (merged by canonical key); the frontier does "
         "not close at this depth - longer histories are not covered")


def bounds(tier):
    return {"grids": [U.spec_id(s) for s in _grids(tier)], "depth": [_depth(tier, gi) for gi in range(len(_grids(tier)))], "slots": 2, "roots": ["init_default", "init_bc_passed", "init_int (periodic)"],
            "tables": "initial-value form (10) x BC style (3) x value edit (5); boundary-face form (4) x coefficient edit (8); on all nine classes"}


def _grids(tier):
    g = [U.spec("Grid1D", (3,), ("I",), 0), U.spec("Grid2D", (2, 2), ("U", "I"), 0),
         U.spec("SphericalGrid1D", (2,), ("I",), 0)]
    if tier == "thorough":
        g += [U.spec("CylindricalGrid2D", (2, 2), ("I", "U"), 1), U.spec("PolarGrid2D", (2, 3), ("I", "U"), 1),
              U.spec("Grid3D", (2, 1, 2), ("U", "U", "I"), 0), U.spec("SphericalGrid3D", (2, 2, 2), ("I", "I", "U"), 1)]
    return g


def _depth(tier, gi=0):
    """Depth bound per grid: quick 3 everywhere; thorough 4 on the first two grids (Grid1D, Grid2D - about 30x the states
    of depth 3 each), 3 on the others."""
    return 3 if (tier == "quick" or gi >= 2) else 4


# ------------------------------------------------------------------ the model

class EditLost(Exception):
    """A supported edit is not reflected by the visible state right after it was made."""


class World:
    def __init__(self, mesh):
        self.mesh = mesh
        self.slots = [None, None]


class Model:
    def __init__(self, spec):
        self.spec = spec
        self.cls = spec["cls"]
        self.d = U.dim(self.cls)
        mesh = U.make_mesh(spec)
        self.dims = tuple(int(k) for k in mesh.dims)
        kinds = U.AXES[self.cls]
        # two edited sides: low side of the first axis, high side of the last axis
        self.sides = [U.SIDES[0][0], U.SIDES[self.d - 1][1]]
        self.paxis = next((ax for ax in range(self.d) if U.periodic_ok(kinds[ax])), None)
        self.pat = [U.generic_array(self.dims, tag=90 + i, signed=(i == 1)) for i in range(4)]
        self.rhs = U.generic_array(tuple(k + 2 for k in self.dims), tag=95, signed=True).ravel()
        self._menu = None

    # -- construction
    def mesh(self):
        return U.make_mesh(self.spec)

    def roots(self):
        return ["init_default", "init_bc_passed", "init_int"]

    def build(self, history):
        w = World(self.mesh())
        if history[0] == "init_default":
            w.slots[0] = pf.CellVariable(w.mesh, self.pat[0].copy())
        elif history[0] == "init_int":      # integer-typed initial array (a count / label field)
            bc = pf.BoundaryConditions(w.mesh)
            if self.paxis is not None:          # ... on a periodic domain (BCs passed in)
                getattr(bc, U.SIDES[self.paxis][0]).periodic = True
            w.slots[0] = pf.CellVariable(w.mesh, np.arange(1, 1 + int(np.prod(self.dims)), dtype=np.int64).reshape(self.dims), bc)
        else:
            w.slots[0] = pf.CellVariable(w.mesh, self.pat[0].copy(), pf.BoundaryConditions(w.mesh))
        w.slots[0]._mc_seen = 0
        w.slots[0]._mc_group = 1
        w.ngroups = 1
        w.slots[0]._mc_cleared_by_other = False
        w.slots[0]._mc_applied_bc = self._bc_bytes(w.slots[0].BCs)
        for op in history[1:]:
            self.apply(w, op)
        return w

    # -- fixed coefficient objects (independent of the slots)
    def terms(self, w, v):
        D = U.generic_face(w.mesh, tag=97)
        u = U.generic_face(w.mesh, tag=99, signed=True)
        src = pf.CellVariable(w.mesh, self.pat[3].copy())
        return [pf.transientTerm(v, DT, 1.0), -pf.diffusionTerm(D), pf.convectionUpwindTerm(u), pf.constantSourceTerm(src)]

    # -- menu
    def menu(self):
        if self._menu is None:
            m = []
            for s in (0, 1):
                for side in self.sides:
                    for e in ("fixedValue", "fixedGradient", "newtonCooling", "defaultNoFlux", "set_a", "slice_c", "index_a",
                              "set_b", "set_c", "newtonReverse", "fixedGradientScaled", "c_ppm", "b_ppm", "c_iadd"):
                        m.append("bc:%d:%s:%s" % (s, side, e))
                if self.paxis is not None:
                    m += ["per:%d:on" % s, "per:%d:on_hi" % s, "per:%d:off" % s]
                m += ["val:%d:assign" % s, "val:%d:index" % s, "val:%d:iadd" % s,
                      "apply:%d" % s, "solve:%d" % s, "expl:%d:replace" % s, "expl:%d:other" % s,
                      "new:%d:copy" % s, "new:%d:add1" % s, "new:%d:mul2" % s, "new:%d:share" % s,
                      "new:%d:fresh" % s, "upd:%d" % s]
            self._menu = m
        return self._menu

    def ops(self, w):
        out = []
        for op in self.menu():
            p = op.split(":")
            s = int(p[1])
            if w.slots[s] is None and p[0] != "new":
                continue
            if p[0] == "new":
                # "new:s:kind" creates slot s from the *other* slot t (or fresh)
                t = 1 - s
                if p[2] == "fresh":
                    if s == 0:
                        continue
                elif w.slots[t] is None:
                    continue
            if p[0] == "upd" and (w.slots[0] is None or w.slots[1] is None):
                continue
            out.append(op)
        return out

    # -- shadow bookkeeping (harness-side, never read by the library): which variable has
    #    refreshed (ghosts + cached BC term) since the last edit of its BC object, and whether
    #    the shared dirty bits were cleared by *another* variable in between.
    @staticmethod
    def _epoch(bc):
        return getattr(bc, "_mc_epoch", 0)

    def _mark_refreshed(self, w, v, clears_bits):
        v._mc_seen = self._epoch(v.BCs)
        v._mc_cleared_by_other = False
        v._mc_applied_bc = self._bc_bytes(v.BCs)
        if clears_bits:
            for o in w.slots:
                if o is not None and o is not v and o.BCs is v.BCs and getattr(o, "_mc_seen", 0) < self._epoch(o.BCs):
                    o._mc_cleared_by_other = True

    def _shadow_before(self, w, op):
        p = op.split(":")
        s = int(p[1])
        v = w.slots[s]
        info = {}
        if p[0] == "expl":
            info["src_dirty"] = bool(v.BCs.modified or v.value.modified)
        return info

    def _shadow_after(self, w, op, info):
        p = op.split(":")
        s = int(p[1])
        t = 1 - s
        if p[0] in ("bc", "per"):
            bc = w.slots[s].BCs
            bc._mc_epoch = self._epoch(bc) + 1
        elif p[0] in ("apply", "solve"):
            self._mark_refreshed(w, w.slots[s], True)
        elif p[0] == "expl":
            # the result may have replaced the source slot: find source and result
            res = w.slots[s] if p[2] == "replace" else w.slots[t]
            src = info["src_obj"]
            if info["src_dirty"]:
                self._mark_refreshed(w, src, True)
            res._mc_seen = self._epoch(res.BCs)
            res._mc_cleared_by_other = False
            res._mc_applied_bc = self._bc_bytes(res.BCs)
            res._mc_group = src._mc_group
            # the result shares the BC object and its apply_BCs cleared the bits
            for o in list(w.slots) + [src]:
                if o is not None and o is not res and o.BCs is res.BCs and getattr(o, "_mc_seen", 0) < self._epoch(o.BCs):
                    o._mc_cleared_by_other = True
        elif p[0] == "new":
            nv = w.slots[s]
            nv._mc_seen = self._epoch(nv.BCs)
            nv._mc_cleared_by_other = False
            nv._mc_applied_bc = self._bc_bytes(nv.BCs)
            # which variables are *supposed* to share a BC object: only 'share' (BCs passed to the
            # constructor) and results of solveExplicitPDE
            w.ngroups = getattr(w, "ngroups", 1) + 1
            nv._mc_group = w.slots[t]._mc_group if p[2] == "share" else w.ngroups
            # copies and arithmetic results carry the BC content of their source
            if p[2] in ("copy", "add1", "mul2") and self._bc_bytes(nv.BCs) != self._bc_bytes(w.slots[t].BCs):
                raise AssertionError("result of %s does not carry the boundary conditions of its operand" % p[2])

    def apply(self, w, op):
        info = self._shadow_before(w, op)
        if op.split(":")[0] == "expl":
            info["src_obj"] = w.slots[int(op.split(":")[1])]
        self._apply_raw(w, op)
        self._shadow_after(w, op, info)

    def _apply_raw(self, w, op):
        p = op.split(":")
        s = int(p[1])
        t = 1 - s
        v = w.slots[s]
        if p[0] == "bc":
            bf = getattr(v.BCs, p[2])
            e = p[3]
            if e == "fixedValue":
                bf.fixedValue(1.5)
            elif e == "fixedGradient":
                bf.fixedGradient(0.5)
            elif e == "newtonCooling":
                bf.newtonCooling(1.0, 2.0, 3.0)
            elif e == "defaultNoFlux":
                bf.defaultNoFlux()
            elif e == "set_a":
                bf.a = 2.0
            elif e == "slice_c":
                bf.c[:] = 0.75
            elif e == "index_a":
                a = bf.a
                a[(0,) * a.ndim] = 3.0
            elif e == "set_b":
                bf.b = 0.5
            elif e == "set_c":
                bf.c = 1.25
            elif e == "newtonReverse":
                bf.newtonCooling(1.0, 2.0, 3.0, reverse_direction=True)
            elif e == "fixedGradientScaled":
                bf.fixedGradient(0.5, scale_coeffs=2.0)
            elif e == "c_ppm":        # re-assignment with a value that differs by a few ppm / by 1e-9 absolute
                bf.c = np.asarray(bf.c) * (1.0 + 2.0 ** -18) + 2.0 ** -30
            elif e == "b_ppm":
                bf.b = np.asarray(bf.b) * (1.0 + 2.0 ** -18) + 2.0 ** -30
            elif e == "c_iadd":       # augmented assignment through the property
                bf.c += 0.5
        elif p[0] == "per":
            lo, hi = U.SIDES[self.paxis]
            if p[2] == "on":                # either face declares the axis periodic
                getattr(v.BCs, lo).periodic = True
            elif p[2] == "on_hi":
                getattr(v.BCs, hi).periodic = True
            else:
                getattr(v.BCs, lo).periodic = False
                getattr(v.BCs, hi).periodic = False
        elif p[0] == "val":
            if p[2] == "assign":
                v.value = self.pat[1]
                want = self.pat[1]
            elif p[2] == "index":
                want = np.array(v.value, dtype=float)
                want[(0,) * self.d] = 9.5
                v.value[(0,) * self.d] = 9.5
            else:
                want = np.array(v.value, dtype=float) + 1.25
                v.value += 1.25
            if not np.array_equal(np.asarray(v.value, dtype=float), want):
                raise EditLost("after %s the interior values are %s, assigned %s"
                               % (op, np.asarray(v.value).ravel()[:4].tolist(), np.asarray(want).ravel()[:4].tolist()))
        elif p[0] == "apply":
            v.apply_BCs()
        elif p[0] == "solve":
            r = pf.solvePDE(v, self.terms(w, v))
            if r is not v:
                raise AssertionError("solvePDE did not return its argument")
        elif p[0] == "expl":
            r = pf.solveExplicitPDE(v, DT, self.rhs)
            if p[2] == "replace":
                w.slots[s] = r
            else:
                w.slots[t] = r
        elif p[0] == "new":
            src = w.slots[t]
            k = p[2]
            if k == "copy":
                w.slots[s] = src.copy()
            elif k == "add1":
                w.slots[s] = src + 1.0
            elif k == "mul2":
                w.slots[s] = 2.0 * src
            elif k == "share":
                w.slots[s] = pf.CellVariable(w.mesh, self.pat[2].copy(), src.BCs)
            elif k == "fresh":
                w.slots[s] = pf.CellVariable(w.mesh, self.pat[2].copy())
        elif p[0] == "upd":
            v.update_value(w.slots[t])
        else:
            raise KeyError(op)

    # -- canonical key
    @staticmethod
    def _bc_bytes(bc):
        out = []
        for side in ("left", "right", "bottom", "top", "back", "front"):
            bf = getattr(bc, side)
            out.append((np.asarray(bf._a).tobytes(), np.asarray(bf._b).tobytes(), np.asarray(bf._c).tobytes(),
                        bool(bf._periodic)))
        return tuple(out)

    def _fresh_bc(self, mesh, bc):
        nb = pf.BoundaryConditions(mesh)
        for side in ("left", "right", "bottom", "top", "back", "front"):
            o, n = getattr(bc, side), getattr(nb, side)
            if np.asarray(o._a).size:
                n.a = np.array(o._a)
                n.b = np.array(o._b)
                n.c = np.array(o._c)
            n.periodic = bool(o._periodic)
        return nb

    def fresh_var(self, mesh, v):
        return pf.CellVariable(mesh, np.array(v.value), self._fresh_bc(mesh, v.BCs))

    def key(self, w):
        ids = {}
        slots = []
        for v in w.slots:
            if v is None:
                slots.append(None)
                continue
            bid = ids.setdefault(id(v.BCs), len(ids))
            has_cache = hasattr(v, "_BCsTerm")
            try:
                fresh = self.fresh_var(w.mesh, v)
                ghost_fresh = bool(np.array_equal(np.asarray(fresh._value), np.asarray(v._value), equal_nan=True))
                if has_cache:
                    Mf, rf = fresh._BCsTerm
                    Mc, rc = v._BCsTerm
                    cache_fresh = bool(np.array_equal(Mf.toarray(), Mc.toarray()) and np.array_equal(rf, rc))
                else:
                    cache_fresh = None
            except Exception:  # noqa: BLE001  (e.g. radial periodic): treat as its own class
                ghost_fresh, cache_fresh = "exc", "exc"
            cache_digest = None
            if has_cache:
                Mc, rc = v._BCsTerm
                cache_digest = hash((Mc.toarray().tobytes(), np.asarray(rc).tobytes()))
            slots.append((bid, bool(v.BCsTerm_precalc), has_cache, cache_fresh, cache_digest, ghost_fresh,
                          bool(v._value.modified), bool(v.BCs.modified), self._bc_bytes(v.BCs),
                          bool(getattr(v, "_mc_cleared_by_other", False)),
                          getattr(v, "_mc_seen", 0) < self._epoch(v.BCs), np.asarray(v._value).dtype.str))
        a = tuple(slots)
        # slot symmetry: the menu is symmetric under renaming the slots
        if slots[1] is not None and slots[0] is not None:
            ids2 = {}
            sw = []
            for v in (w.slots[1], w.slots[0]):
                sw.append(ids2.setdefault(id(v.BCs), len(ids2)))
            b = ((sw[0],) + slots[1][1:], (sw[1],) + slots[0][1:])
            return min(a, b, key=repr)
        return a

    # -- invariants
    def _sig(self, w, s):
        k = self.key_slot(w, s)
        return k

    def key_slot(self, w, s):
        v = w.slots[s]
        o = w.slots[1 - s]
        shared = o is not None and o.BCs is v.BCs
        has_cache = hasattr(v, "_BCsTerm")
        try:
            fresh = self.fresh_var(w.mesh, v)
            ghost = "fresh" if np.array_equal(np.asarray(fresh._value), np.asarray(v._value), equal_nan=True) else "stale"
            if has_cache:
                Mf, rf = fresh._BCsTerm
                Mc, rc = v._BCsTerm
                cache = "fresh" if (np.array_equal(Mf.toarray(), Mc.toarray()) and np.array_equal(rf, rc)) else "stale"
            else:
                cache = "missing"
        except Exception:  # noqa: BLE001
            ghost = cache = "exc"
        dirty = int(bool(v._value.modified) or bool(v.BCs.modified))
        return "cache=%s:ghost=%s:dirty=%d:shared_bc=%d:precalc=%d" % (cache, ghost, dirty, int(shared), int(bool(v.BCsTerm_precalc)))

    @staticmethod
    def _same(a, b):
        a = np.asarray(a, dtype=float)
        b = np.asarray(b, dtype=float)
        if a.shape != b.shape:
            return False
        sc = max(1.0, float(np.nanmax(np.abs(b))) if np.any(np.isfinite(b)) else 1.0)
        return bool(np.allclose(a, b, rtol=1e-10, atol=1e-10 * sc, equal_nan=True))

    def invariants(self, w, history):
        F = []
        gid = U.spec_id(self.spec)
        for s in (0, 1):
            if w.slots[s] is None:
                continue
            sig = self.key_slot(w, s)
            # reference: a fresh variable from the visible state
            try:
                ref_w = copy.deepcopy(w)
                fresh = self.fresh_var(ref_w.mesh, ref_w.slots[s])
            except Exception as e:  # noqa: BLE001
                if isinstance(e, ValueError) and "Radial periodic" in str(e):
                    continue
                F.append({"key": "C09:fresh_construction_failed:%s" % type(e).__name__,
                          "msg": "cannot build the fresh reference variable: %r" % e, "detail": {"history": history}})
                continue
            fresh_solve = pf.solvePDE(copy.deepcopy(fresh), self.terms(ref_w, fresh))
            fresh_expl = pf.solveExplicitPDE(copy.deepcopy(fresh), DT, self.rhs)
            for name in ("solvePDE", "solveExplicitPDE", "apply_BCs", "apply_BCs+solvePDE"):
                w2 = copy.deepcopy(w)
                v = w2.slots[s]
                try:
                    if name == "apply_BCs+solvePDE":
                        # an explicit refresh must make the variable fully fresh (ghosts *and* cached term)
                        v.apply_BCs()
                        got = pf.solvePDE(v, self.terms(w2, v))
                        want = fresh_solve
                    elif name == "solvePDE":
                        got = pf.solvePDE(v, self.terms(w2, v))
                        want = fresh_solve
                    elif name == "solveExplicitPDE":
                        got = pf.solveExplicitPDE(v, DT, self.rhs)
                        want = fresh_expl
                    else:
                        v.apply_BCs()
                        got = v
                        want = fresh
                except Exception as e:  # noqa: BLE001
                    F.append({"key": "C09:I4:exception:%s:%s:%s" % (name, type(e).__name__, sig),
                              "msg": "%s on slot %d after history %s on %s raises %s: %s"
                                     % (name, s, history, gid, type(e).__name__, str(e)[:100]),
                              "detail": {"history": history, "slot": s, "grid": gid}})
                    continue
                if not self._same(got._value, want._value):
                    diff = float(np.nanmax(np.abs(np.asarray(got._value) - np.asarray(want._value))))
                    vs = w.slots[s]
                    if (name != "apply_BCs+solvePDE" and getattr(vs, "_mc_cleared_by_other", False) and not vs.BCs.modified
                            and self._residual_shared(w, s, name, got)):
                        F.append({"key": "C09:shared_bc_dirty_bits_cleared_by_other:%s" % name,
                                  "msg": "%s on slot %d after history %s on %s uses boundary terms/ghosts from before the last BC edit: the variable shares its BC object with another variable whose apply_BCs/solve cleared the shared dirty bits (max diff %.3g to a fresh start)"
                                         % (name, s, history, gid, diff),
                                  "detail": {"history": history, "slot": s, "grid": gid, "max_diff": diff}})
                        continue
                    F.append({"key": "C09:stale:%s:%s" % (name, sig),
                              "msg": "%s on slot %d after history %s on %s differs from the same call on a freshly constructed variable with the same interior values and boundary conditions (max diff %.3g; state %s)"
                                     % (name, s, history, gid, diff, sig),
                              "detail": {"history": history, "slot": s, "grid": gid, "max_diff": diff}})
        # I5: independence of slots that do not share a BC object
        v0, v1 = w.slots
        if v0 is not None and v1 is not None:
            if np.shares_memory(np.asarray(v0._value), np.asarray(v1._value)):
                F.append({"key": "C09:I5:values_share_memory", "msg": "the two variables share value storage after %s" % history,
                          "detail": {"history": history}})
            expect_shared = getattr(v0, "_mc_group", 0) == getattr(v1, "_mc_group", 1)
            if (v0.BCs is v1.BCs) != expect_shared:
                F.append({"key": "C09:I5:bc_object_%s" % ("unexpectedly_shared" if v0.BCs is v1.BCs else "unexpectedly_separate"),
                          "msg": "after history %s on %s the two variables %s one BoundaryConditions object, which the operations that created them do not imply"
                                 % (history, gid, "share" if v0.BCs is v1.BCs else "do not share"),
                          "detail": {"history": history, "grid": gid}})
            if v0.BCs is not v1.BCs:
                for side in ("left", "right", "bottom", "top", "back", "front"):
                    for c in ("_a", "_b", "_c"):
                        x, y = np.asarray(getattr(getattr(v0.BCs, side), c)), np.asarray(getattr(getattr(v1.BCs, side), c))
                        if x.size and np.shares_memory(x, y):
                            F.append({"key": "C09:I5:bc_share_memory", "msg": "BC coefficient storage shared after %s" % history,
                                      "detail": {"history": history}})
                # cross-modification probe in both directions
                for a, b in ((0, 1), (1, 0)):
                    w2 = copy.deepcopy(w)
                    before = (np.array(w2.slots[b]._value), self._bc_bytes(w2.slots[b].BCs))
                    va = w2.slots[a]
                    va.value = self.pat[1] * 5.0
                    getattr(va.BCs, self.sides[0]).fixedValue(77.0)
                    va.apply_BCs()
                    after = (np.array(w2.slots[b]._value), self._bc_bytes(w2.slots[b].BCs))
                    if not (np.array_equal(before[0], after[0], equal_nan=True) and before[1] == after[1]):
                        F.append({"key": "C09:I5:cross_modification",
                                  "msg": "modifying slot %d changes slot %d after history %s" % (a, b, history),
                                  "detail": {"history": history}})
        return F

    def _bc_from_bytes(self, mesh, template_bc, snap):
        nb = pf.BoundaryConditions(mesh)
        for side, (a, b, c, per) in zip(("left", "right", "bottom", "top", "back", "front"), snap):
            o, n = getattr(template_bc, side), getattr(nb, side)
            if np.asarray(o._a).size:
                n.a = np.frombuffer(a, dtype=float).reshape(np.asarray(o._a).shape).copy()
                n.b = np.frombuffer(b, dtype=float).reshape(np.asarray(o._b).shape).copy()
                n.c = np.frombuffer(c, dtype=float).reshape(np.asarray(o._c).shape).copy()
            n.periodic = per
        return nb

    def _residual_shared(self, w, s, name, got):
        """Residual oracle of the recorded shared-BC finding: the stale variable must behave
        exactly like a variable that still has the BC content of its own last refresh for the
        cached boundary system, and the current BC content for everything recomputed."""
        v = w.slots[s]
        snap = getattr(v, "_mc_applied_bc", None)
        if snap is None:
            return False
        try:
            old_bc = self._bc_from_bytes(w.mesh, v.BCs, snap)
            if name == "solvePDE":
                fo = pf.CellVariable(w.mesh, np.array(v.value), old_bc)
                fo = pf.solvePDE(fo, self.terms(w, fo))
                ref = pf.CellVariable(w.mesh, np.array(fo.value), self._fresh_bc(w.mesh, v.BCs))
                return self._same(got._value, ref._value)
            if name == "solveExplicitPDE":
                # old ghosts enter x = _value + dt*RHS only in the ghost layer, which is recomputed
                x = np.asarray(v._value) + DT * self.rhs.reshape(np.asarray(v._value).shape)
                sl = tuple(slice(1, -1) for _ in range(self.d))
                ref = pf.CellVariable(w.mesh, np.array(x[sl]), self._fresh_bc(w.mesh, v.BCs))
                return self._same(got._value, ref._value)
            return False
        except Exception:  # noqa: BLE001
            return False

    def replay_exception(self, history, exc):
        """Finding for a history that raises when replayed from scratch: locate the raising op."""
        w = self.build(history[:1])
        for i, op in enumerate(history[1:]):
            try:
                self.apply(w, op)
            except Exception as e:  # noqa: BLE001
                wb = self.build(history[:1 + i])
                return self.on_exception(wb, history[:1 + i], op, e)
        return {"key": "C09:I4:exception:replay:%s" % type(exc).__name__, "msg": "history %s raises %r" % (history, exc),
                "detail": {"history": history}}

    def on_exception(self, w, history, op, exc):
        # radial periodic is excluded from the menu; any exception of a supported operation is a finding
        p = op.split(":")
        s = int(p[1])
        src = s if p[0] != "new" else 1 - s
        sig = self.key_slot(w, src) if w.slots[src] is not None else "none"
        return {"key": "C09:I4:exception:%s:%s:%s" % (":".join(p[:1] + p[2:]), type(exc).__name__, sig),
                "msg": "operation %s after history %s on %s raises %s: %s"
                       % (op, history, U.spec_id(self.spec), type(exc).__name__, str(exc)[:100]),
                "detail": {"history": history + [op], "grid": U.spec_id(self.spec)}}


# ------------------------------------------------------------------ harness interface

def cases(tier):
    return [{"grid": s, "depth": _depth(tier, gi)} for gi, s in enumerate(_grids(tier))]


def _forms_case(spec):
    """Every way a variable can be given its initial values (float / integer / bool arrays without and with ghost
    cells, scalars; BCs defaulted, passed in, periodic) x every supported value edit: right after the edit the
    visible interior values are the ones assigned, and a solve equals a fresh start from them."""
    m = Model(spec)
    F = []
    n = 0
    dims = m.dims
    full = tuple(k + 2 for k in dims)
    N = int(np.prod(dims))
    inits = {"float": m.pat[0].copy(), "int64": np.arange(1, N + 1, dtype=np.int64).reshape(dims),
             "int32": np.arange(1, N + 1, dtype=np.int32).reshape(dims), "bool": (np.arange(N).reshape(dims) % 2 == 0),
             "int64_with_ghosts": np.arange(int(np.prod(full)), dtype=np.int64).reshape(full),
             "bool_with_ghosts": (np.arange(int(np.prod(full))).reshape(full) % 3 == 0),
             "python_int": 3, "numpy_int": np.int64(3), "python_bool": True, "size1_int_array": np.array([3])}
    bcs = ["default", "passed", "periodic"] if m.paxis is not None else ["default", "passed"]
    for iname, init in inits.items():
        for bname in bcs:
            for ename in ("assign", "index", "iadd", "update_value", "slice_half"):
                mesh = m.mesh()
                try:
                    if bname == "default":
                        v = pf.CellVariable(mesh, init.copy() if isinstance(init, np.ndarray) else init)
                    else:
                        bc = pf.BoundaryConditions(mesh)
                        if bname == "periodic":
                            getattr(bc, U.SIDES[m.paxis][0]).periodic = True
                        v = pf.CellVariable(mesh, init.copy() if isinstance(init, np.ndarray) else init, bc)
                    before = np.array(v.value, dtype=float)
                    if ename == "assign":
                        want = m.pat[1].copy()
                        v.value = m.pat[1]
                    elif ename == "index":
                        want = before.copy()
                        want[(0,) * m.d] = 9.5
                        v.value[(0,) * m.d] = 9.5
                    elif ename == "iadd":
                        want = before + 1.25
                        v.value += 1.25
                    elif ename == "slice_half":
                        want = before.copy()
                        want[...] = before * 0.5 + 0.125
                        v.value[...] = before * 0.5 + 0.125
                    else:
                        o = pf.CellVariable(mesh, m.pat[1].copy())
                        want = m.pat[1].copy()
                        v.update_value(o)
                    n += 1
                    got = np.asarray(v.value, dtype=float)
                    ok = np.array_equal(got, want)
                    if ok:
                        w = World(mesh)
                        ref = pf.CellVariable(mesh, want.copy(), m._fresh_bc(mesh, v.BCs))
                        a = pf.solvePDE(v, m.terms(w, v))
                        b = pf.solvePDE(ref, m.terms(w, ref))
                        ok = m._same(a._value, b._value)
                        msg = "the next solvePDE differs from a fresh start with the assigned values"
                    else:
                        msg = "the interior values are %s, assigned %s" % (got.ravel()[:4].tolist(), np.asarray(want).ravel()[:4].tolist())
                    if not ok:
                        F.append({"key": "C09:edit_lost:%s:%s" % (iname, ename),
                                  "msg": "variable on %s initialised with %s (%s BCs), then %s: %s"
                                         % (U.spec_id(spec), iname, bname, ename, msg), "detail": {"grid": U.spec_id(spec)}})
                except Exception as e:  # noqa: BLE001
                    if isinstance(e, ValueError) and "Radial periodic" in str(e):
                        continue
                    F.append({"key": "C09:edit_exception:%s:%s:%s" % (iname, ename, type(e).__name__),
                              "msg": "variable on %s initialised with %s (%s BCs), then %s raises %s: %s"
                                     % (U.spec_id(spec), iname, bname, ename, type(e).__name__, str(e)[:120]),
                              "detail": {"grid": U.spec_id(spec)}})
    # boundary coefficients: a face left at its default, or replaced by a BoundaryFace built from float / integer
    # arrays, then every supported coefficient edit: the coefficients read back are the ones assigned
    BF = pf.boundary.BoundaryFace
    side = m.sides[1]
    for fname in ("default", "replaced_float", "replaced_int", "replaced_bool"):
        for ename in ("set_c", "slice_c", "fixedValue", "fixedGradient", "newtonCooling", "c_iadd", "index_a", "set_b"):
            mesh = m.mesh()
            try:
                bc = pf.BoundaryConditions(mesh)
                o = getattr(bc, side)
                sh = np.asarray(o._a).shape
                if fname == "replaced_float":
                    setattr(bc, side, BF(np.ones(sh), np.zeros(sh), np.zeros(sh)))
                elif fname == "replaced_int":
                    setattr(bc, side, BF(np.ones(sh, dtype=np.int64), np.zeros(sh, dtype=np.int64), np.zeros(sh, dtype=np.int64)))
                elif fname == "replaced_bool":
                    setattr(bc, side, BF(np.ones(sh, dtype=bool), np.zeros(sh, dtype=bool), np.zeros(sh, dtype=bool)))
                v = pf.CellVariable(mesh, m.pat[0].copy(), bc)
                bf = getattr(v.BCs, side)
                A, B, C = (np.array(x, dtype=float) for x in (bf.a, bf.b, bf.c))
                if ename == "set_c":
                    bf.c = 1.25
                    C[...] = 1.25
                elif ename == "slice_c":
                    bf.c[:] = 0.75
                    C[...] = 0.75
                elif ename == "fixedValue":
                    bf.fixedValue(1.5)
                    A[...], B[...], C[...] = 0.0, 1.0, 1.5
                elif ename == "fixedGradient":
                    bf.fixedGradient(0.5)
                    A[...], B[...], C[...] = 1.0, 0.0, 0.5
                elif ename == "newtonCooling":
                    bf.newtonCooling(1.0, 2.5, 3.0)
                    ref_bf = getattr(pf.BoundaryConditions(mesh), side)
                    ref_bf.newtonCooling(1.0, 2.5, 3.0)
                    A, B, C = (np.array(x, dtype=float) for x in (ref_bf.a, ref_bf.b, ref_bf.c))
                elif ename == "c_iadd":
                    bf.c += 0.5
                    C = C + 0.5
                elif ename == "index_a":
                    a_ = bf.a
                    a_[(0,) * a_.ndim] = 3.5
                    A[(0,) * A.ndim] = 3.5
                else:
                    bf.b = 0.25
                    B[...] = 0.25
                n += 1
                got = [np.asarray(x, dtype=float) for x in (bf.a, bf.b, bf.c)]
                if not all(np.array_equal(g_, w_) for g_, w_ in zip(got, (A, B, C))):
                    F.append({"key": "C09:bc_edit_lost:%s:%s" % (fname, ename),
                              "msg": "boundary face %s of a variable on %s (%s), then %s: coefficients read back a=%s b=%s c=%s, assigned a=%s b=%s c=%s"
                                     % (side, U.spec_id(spec), fname, ename, got[0].ravel()[:2].tolist(), got[1].ravel()[:2].tolist(),
                                        got[2].ravel()[:2].tolist(), A.ravel()[:2].tolist(), B.ravel()[:2].tolist(), C.ravel()[:2].tolist()),
                              "detail": {"grid": U.spec_id(spec)}})
                    continue
                nb = pf.BoundaryConditions(mesh)
                nf = getattr(nb, side)
                nf.a, nf.b, nf.c = A, B, C
                ref = pf.CellVariable(mesh, m.pat[0].copy(), nb)
                w = World(mesh)
                a = pf.solvePDE(v, m.terms(w, v))
                b = pf.solvePDE(ref, m.terms(w, ref))
                if not m._same(a._value, b._value):
                    F.append({"key": "C09:bc_edit_stale:%s:%s" % (fname, ename),
                              "msg": "boundary face %s on %s (%s), then %s: the next solvePDE differs from a fresh start with the assigned coefficients"
                                     % (side, U.spec_id(spec), fname, ename), "detail": {"grid": U.spec_id(spec)}})
            except Exception as e:  # noqa: BLE001
                F.append({"key": "C09:bc_edit_exception:%s:%s:%s" % (fname, ename, type(e).__name__),
                          "msg": "boundary face %s on %s (%s), then %s raises %s: %s"
                                 % (side, U.spec_id(spec), fname, ename, type(e).__name__, str(e)[:120]), "detail": {"grid": U.spec_id(spec)}})
    return n, F


def explore(tier):
    for s in [U.spec(c, {1: (3,), 2: (2, 3), 3: (2, 1, 2)}[U.dim(c)], ("I",) * (U.dim(c) - 1) + ("U",), 1) for c in U.CLASSES]:
        n, F = _forms_case(s)
        yield ({"grid": s, "forms": True}, {"evals": n, "nontrivial": n, "states": n, "transitions": n, "findings": F,
                                            "outcomes": {"forms:%s" % ("ok" if not F else "viol"): 1}})
    for gi, s in enumerate(_grids(tier)):
        m = Model(s)
        r = histbfs.bfs(m, _depth(tier, gi))
        if tier == "thorough" and gi == 0:
            # soundness of the state merging: pure history enumeration (no merging) to depth 3 must
            # produce exactly the same set of finding keys as the merged search up to that depth
            r2 = histbfs.bfs(m, 3, merge=False)
            k_merged = {f["key"] for h, f in r["findings"] if len(h) <= 4}
            k_plain = {f["key"] for h, f in r2["findings"]}
            yield ({"grid": s, "depth": 3, "unmerged": True},
                   {"evals": r2["states"], "nontrivial": r2["states"], "states": r2["states"], "transitions": r2["transitions"],
                    "findings": [] if k_merged == k_plain else [{
                        "key": "C09:HARNESS:merge_disagreement",
                        "msg": "merged and unmerged searches disagree up to depth 3: only merged %s, only unmerged %s"
                               % (sorted(k_merged - k_plain)[:3], sorted(k_plain - k_merged)[:3]), "detail": {}}],
                    "outcomes": {"unmerged_crosscheck": 1}, "label": "unmerged:" + U.spec_id(s),
                    "depth_completed": r2["depth_completed"], "per_level": r2["per_level"]})
        by_hist = {}
        for hist, f in r["findings"]:
            by_hist.setdefault(tuple(hist), []).append(f)
        # one result per failing history (these are the replayable cases), shortest first
        for hist in sorted(by_hist, key=len):
            yield ({"grid": s, "history": list(hist)},
                   {"evals": 0, "nontrivial": 0, "findings": by_hist[hist], "outcomes": {"viol": 1}})
        yield ({"grid": s, "depth": _depth(tier, gi)},
               {"evals": r["states"], "nontrivial": r["states"], "states": r["states"], "transitions": r["transitions"],
                "findings": [], "outcomes": {"bfs:%s" % U.spec_id(s): 1}, "depth_completed": r["depth_completed"],
                "closed": r["closed"], "per_level": r["per_level"], "caps_hit": r["caps_hit"], "label": U.spec_id(s),
                "sample": {"grid": U.spec_id(s), "histories": r["samples"]}, "sample_me": True})


def run_case(case):
    """Replay of one history from scratch (no explorer, no deepcopy for construction)."""
    m = Model(case["grid"])
    res = {"evals": 1, "nontrivial": 1, "findings": [], "outcomes": {}}
    if case.get("forms"):
        n, F = _forms_case(case["grid"])
        res["findings"] = F
        return res
    hist = case["history"]
    w = World(m.mesh())
    w = m.build(hist[:1])
    for i, op in enumerate(hist[1:]):
        try:
            m.apply(w, op)
        except Exception as e:  # noqa: BLE001
            wb = m.build(hist[:1 + i])
            f = m.on_exception(wb, hist[:1 + i], op, e)
            if f:
                res["findings"].append(f)
            return res
    res["findings"] += m.invariants(w, hist)
    return res
