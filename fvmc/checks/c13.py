"""C13 - flux limiters compute the published formulas, are total and within TVD bounds.

Engine D (complete finite tables).  Reference: the published closed forms (Sweby 1984, Roe,
van Leer, van Albada, Koren, Waterson-Deconinck as tabulated on the Wikipedia page the
library cites) evaluated in exact rational arithmetic (fractions.Fraction), with the value
at removable singularities resolved by hand (HCUS(-2)=0, HQUICK(-3)=0, CHARM(r<=0)=0).
"""
import contextlib
import io
import itertools
import math
from fractions import Fraction as Fr

import numpy as np

from ..env import pf, EPS
from .. import universe as U
from ..opkit import Grid

ID = "C13"
LEVEL = "model_checking"
RULE = ("complete table: 16 limiter names x r-alphabet (all breakpoints/zeros of the published formulas, their "
        "nextafter neighbours, midpoints, dense dyadic grid on [-1000,1000], +-10^k |k|<=100) x array shapes 0-3-D; "
        "TVD totality: all fields over {0,1,2,3} on a line of N+2 cells (lifted in 2-D/3-D) x 16 limiters x 3 velocity "
        "patterns x 9 grid classes; a point is non-trivial when the reference value is non-zero")
ASSUMPTIONS = [
    "between consecutive breakpoints each published formula is one rational function of degree <= 2/2; agreement on "
    ">= 5 points per region decides equality on the region provided the implementation is such a function there",
    "reference closed forms transcribed from the cited Wikipedia table (beta = 1.5 for Sweby/Osher)",
]
NAMES = ['CHARM', 'HCUS', 'HQUICK', 'ospre', 'VanLeer', 'VanAlbada1', 'VanAlbada2', 'MinMod',
         'SUPERBEE', 'Sweby', 'Osher', 'Koren', 'smart', 'MUSCL', 'QUICK', 'UMIST']
CLIPPING = ['MinMod', 'SUPERBEE', 'Osher', 'Sweby', 'Koren', 'MUSCL', 'QUICK', 'UMIST', 'smart', 'VanLeer']


def bounds(tier):
    return {"dense_grid_step": "1/16" if tier == "quick" else "1/256", "range": [-1000, 1000],
            "powers_of_ten": 100, "tvd_line_cells": "N<=3" if tier == "quick" else "N<=4",
            "tvd_field_alphabet": [0, 1, 2, 3]}


def ref(name, r):
    """Published closed form at the rational r (exact)."""
    r = Fr(r)
    z = Fr(0)
    if name == 'CHARM':
        return r * (3 * r + 1) / (r + 1) ** 2 if r > 0 else z
    if name == 'HCUS':
        return Fr(3, 2) * (r + abs(r)) / (r + 2) if r > 0 else z
    if name == 'HQUICK':
        return 2 * (r + abs(r)) / (r + 3) if r > 0 else z
    if name == 'ospre':
        return Fr(3, 2) * (r * r + r) / (r * r + r + 1)
    if name == 'VanLeer':
        return (r + abs(r)) / (1 + abs(r))
    if name == 'VanAlbada1':
        return (r * r + r) / (r * r + 1)
    if name == 'VanAlbada2':
        return 2 * r / (r * r + 1)
    if name == 'MinMod':
        return max(z, min(Fr(1), r))
    if name == 'SUPERBEE':
        return max(z, min(2 * r, Fr(1)), min(r, Fr(2)))
    if name == 'Sweby':
        b = Fr(3, 2)
        return max(z, min(b * r, Fr(1)), min(r, b))
    if name == 'Osher':
        return max(z, min(r, Fr(3, 2)))
    if name == 'Koren':
        return max(z, min(2 * r, (1 + 2 * r) / 3, Fr(2)))
    if name == 'smart':
        return max(z, min(2 * r, Fr(1, 4) + Fr(3, 4) * r, Fr(4)))
    if name == 'MUSCL':
        return max(z, min(2 * r, (1 + r) / 2, Fr(2)))
    if name == 'QUICK':
        return max(z, min(2 * r, (3 + r) / 4, Fr(2)))
    if name == 'UMIST':
        return max(z, min(2 * r, Fr(1, 4) + Fr(3, 4) * r, Fr(3, 4) + Fr(1, 4) * r, Fr(2)))
    raise KeyError(name)


BREAKS = [Fr(a) for a in (-5, -4, -3, -2, -1)] + [Fr(-1, 2), Fr(-1, 3), Fr(-1, 4), Fr(0), Fr(1, 5), Fr(1, 4),
          Fr(1, 3), Fr(2, 5), Fr(1, 2), Fr(2, 3), Fr(3, 4), Fr(1), Fr(5, 4), Fr(4, 3), Fr(3, 2), Fr(2), Fr(5, 2),
          Fr(3), Fr(4), Fr(5), Fr(6), Fr(8)]


def alphabet_chunks(tier):
    """List of (label, list of floats).  Every float is an exact rational for the reference."""
    chunks = []
    b = [float(x) for x in BREAKS]
    nb = []
    for x in b:
        nb += [np.nextafter(x, -np.inf), np.nextafter(x, np.inf)]
    mids = [float((BREAKS[i] + BREAKS[i + 1]) / 2) for i in range(len(BREAKS) - 1)]
    chunks.append(("breakpoints", b))
    chunks.append(("nextafter", [float(x) for x in nb]))
    chunks.append(("midpoints", mids))
    p10 = []
    for k in range(-100, 101):
        p10 += [10.0 ** k, -(10.0 ** k)]
    chunks.append(("powers_of_ten", p10))
    chunks.append(("subnormal_edge", [5e-324, -5e-324, 2.2250738585072014e-308, -2.2250738585072014e-308,
                                      1e-16, -1e-16, 2e-16, -2e-16]))
    den = 16 if tier == "quick" else 256
    lo, hi = -1000 * den, 1000 * den
    step = 2000 * den // (64 if tier == "quick" else 1024)
    for a in range(lo, hi, step):
        chunks.append(("dense", [k / den for k in range(a, min(a + step, hi) + (1 if a + step >= hi else 0))]))
    return chunks


def cases(tier):
    out = []
    for i, (label, vals) in enumerate(alphabet_chunks(tier)):
        out.append({"kind": "table", "label": label, "chunk": i, "tier": tier})
    out.append({"kind": "shapes"})
    out.append({"kind": "containers"})
    out.append({"kind": "fallback"})
    nmax = 3 if tier == "quick" else 4
    for cls in U.CLASSES:
        d = U.dim(cls)
        for n in range(1, nmax + 1):
            if d == 1:
                shapes = [(n,)]
            elif d == 2:
                shapes = [(n, 1), (1, n)] if n > 1 else [(1, 1)]
            else:
                shapes = [(n, 1, 1), (1, n, 1), (1, 1, n)] if n > 1 else [(1, 1, 1)]
            if d > 1 and n > (2 if tier == "quick" else 3):
                continue
            for shape in shapes:
                for sp in ("U", "I"):
                    out.append({"kind": "tvd", "grid": U.spec(cls, shape, (sp,) * d, 1), "tier": tier})
    return out


def _table_case(case, res):
    label, vals = alphabet_chunks(case["tier"])[case["chunk"]]
    arr = np.array(vals, dtype=float)
    for name in NAMES:
        FL = pf.fluxLimiter(name)
        got = np.asarray(FL(arr), dtype=float)
        res["evals"] += len(vals)
        if got.shape != arr.shape:
            res["findings"].append({"key": "C13:shape:%s" % name, "msg": "%s: result shape %s for input shape %s"
                                    % (name, got.shape, arr.shape), "detail": {}})
            continue
        for x, y in zip(vals, got):
            e = ref(name, Fr(x))
            ef = float(e)
            if e != 0:
                res["nontrivial"] += 1
            if not np.isfinite(y):
                res["findings"].append({"key": "C13:nonfinite:%s:%s" % (name, label),
                                        "msg": "fluxLimiter('%s')(%r) = %r (published value %s)" % (name, x, float(y), ef),
                                        "detail": {"name": name, "r": x}})
                break
            tol = 64 * EPS * (1.0 + abs(ef))
            if abs(y - ef) > tol:
                res["findings"].append({"key": "C13:value:%s:%s" % (name, label),
                                        "msg": "fluxLimiter('%s')(%r) = %.17g, published closed form gives %.17g" % (name, x, y, ef),
                                        "detail": {"name": name, "r": x, "got": float(y), "expected": ef}})
                break
            # TVD bounds and clipping-family zero for r <= 0
            if x > 0 and not (-tol <= y <= min(2 * x, 4.0) + tol):
                res["findings"].append({"key": "C13:tvd_bound:%s" % name,
                                        "msg": "fluxLimiter('%s')(%r) = %.17g outside [0, min(2r,4)]" % (name, x, y),
                                        "detail": {"name": name, "r": x}})
                break
            if x <= 0 and name in CLIPPING and y != 0.0:
                res["findings"].append({"key": "C13:clip_zero:%s" % name,
                                        "msg": "fluxLimiter('%s')(%r) = %.17g, must vanish for r<=0" % (name, x, y),
                                        "detail": {"name": name, "r": x}})
                break
        one = float(FL(np.array(1.0)))
        if one != 1.0:
            res["findings"].append({"key": "C13:psi1:%s" % name, "msg": "fluxLimiter('%s')(1) = %r" % (name, one), "detail": {}})
    res["sample"] = {"label": label, "first": vals[:3], "n": len(vals)}


def _shapes_case(res):
    base = np.array([-2.0, -1.0, -0.5, 0.0, 0.25, 0.5, 1.0, 2.0, 3.0, 5.0, 0.75, 1.5])
    for name in NAMES:
        FL = pf.fluxLimiter(name)
        flat = np.asarray(FL(base), dtype=float)
        for shape in [(), (1,), (12,), (3, 4), (4, 3), (2, 2, 3), (1, 12), (12, 1), (2, 3, 2)]:
            x = base[0] if shape == () else base[:int(np.prod(shape))].reshape(shape)
            y = np.asarray(FL(np.array(x)))
            res["evals"] += 1
            res["nontrivial"] += 1
            want = flat[0] if shape == () else flat[:int(np.prod(shape))].reshape(shape)
            if y.shape != np.shape(x) or not np.array_equal(y, want):
                res["findings"].append({"key": "C13:elementwise:%s" % name,
                                        "msg": "fluxLimiter('%s') is not elementwise / shape preserving for shape %s" % (name, shape),
                                        "detail": {"shape": list(shape)}})
                break
        # python float input
        yf = FL(0.5)
        if float(yf) != float(flat[5]):
            res["findings"].append({"key": "C13:scalar:%s" % name, "msg": "scalar input differs", "detail": {}})


def _containers_case(res):
    """The gradient ratio may arrive in any numeric container: integer / float32 arrays of any
    shape, Python and NumPy scalars, strided and read-only views.  The value must be the published
    one for that ratio, and the argument must not be written to."""
    ints = list(range(-6, 10))
    for name in NAMES:
        FL = pf.fluxLimiter(name)
        want = np.array([float(ref(name, Fr(k))) for k in ints])
        variants = []
        for dt in (np.int64, np.int32, np.int8, np.float32, np.float64):
            a = np.array(ints, dtype=dt)
            variants += [("%s[16]" % dt.__name__, a, want), ("%s[4x4]" % dt.__name__, a.reshape(4, 4), want.reshape(4, 4)),
                         ("%s[2x2x4]" % dt.__name__, a.reshape(2, 2, 4), want.reshape(2, 2, 4)),
                         ("%s 0-d" % dt.__name__, np.array(ints[9], dtype=dt), want[9]),
                         ("%s scalar" % dt.__name__, dt(ints[8]), want[8]), ("%s scalar" % dt.__name__, dt(ints[11]), want[11])]
        for k in (-3, -2, -1, 0, 1, 2, 3, 5):
            variants.append(("python int", k, want[ints.index(k)]))
            variants.append(("python float", float(k), want[ints.index(k)]))
        big = np.arange(-12, 20, dtype=float)
        wbig = np.array([float(ref(name, Fr(int(k)))) for k in big])
        variants.append(("strided view", big[::2], wbig[::2]))
        variants.append(("reversed view", big[::-1], wbig[::-1]))
        variants.append(("transposed view", big.reshape(4, 8).T, wbig.reshape(4, 8).T))
        variants.append(("fortran order", np.asfortranarray(big.reshape(4, 8)), wbig.reshape(4, 8)))
        ro = big.copy()
        ro.flags.writeable = False
        variants.append(("read-only array", ro, wbig))
        for label, x, w in variants:
            res["evals"] += 1
            res["nontrivial"] += 1
            before = np.array(x, copy=True)
            try:
                y = FL(x)
            except Exception as e:
                res["findings"].append({"key": "C13:container:%s:%s" % (name, label.split("[")[0]),
                                        "msg": "fluxLimiter('%s') raises %s for r given as %s" % (name, type(e).__name__, label),
                                        "detail": {}})
                continue
            y = np.asarray(y)
            tol = (64 * float(np.finfo(np.float32).eps) if "float32" in label else 64 * EPS) * (1.0 + np.abs(w))
            if y.shape != np.shape(x) or not np.all(np.abs(y.astype(float) - w) <= tol):
                res["findings"].append({"key": "C13:container:%s:%s" % (name, label.split("[")[0]),
                                        "msg": "fluxLimiter('%s') on r = %s given as %s returns %s, published values %s"
                                               % (name, np.asarray(x).ravel()[:6].tolist(), label, y.ravel()[:6].tolist(),
                                                  np.asarray(w).ravel()[:6].tolist()), "detail": {}})
            if not np.array_equal(np.asarray(x), before):
                res["findings"].append({"key": "C13:argument_modified:%s" % name,
                                        "msg": "fluxLimiter('%s') modified its argument (%s)" % (name, label), "detail": {}})


def _fallback_case(res):
    x = np.array([float(b) for b in BREAKS] + [0.3, 0.7, 1.7, 2.2, -0.2])
    sb = pf.fluxLimiter("SUPERBEE")(x)
    for nm in ("no_such_limiter", "", "superbee", "Superbee", "minmod", "KOREN", "vanleer"):
        buf = io.StringIO()
        with contextlib.redirect_stdout(buf):
            FL = pf.fluxLimiter(nm)
        y = FL(x)
        res["evals"] += 1
        res["nontrivial"] += 1
        if not np.array_equal(np.asarray(y), np.asarray(sb)):
            res["findings"].append({"key": "C13:fallback", "msg": "unknown limiter name %r does not fall back to SUPERBEE" % nm,
                                    "detail": {"name": nm}})


def _tvd_case(case, res):
    g = Grid(case["grid"])
    ax = int(np.argmax(g.dims)) if max(g.dims) > 1 else 0
    axes = [ax] if g.d > 1 and max(g.dims) > 1 else list(range(g.d))
    base = U.generic_face(g.mesh, tag=11)
    arrs = g.face_arrays(base)
    vels = [("plus", arrs), ("minus", [-a for a in arrs]),
            ("alt", [np.where(np.indices(a.shape).sum(axis=0) % 2 == 0, a, -a) for a in arrs])]
    fls = [(n, pf.fluxLimiter(n)) for n in NAMES]
    reported = set()
    for a in axes:
        n = g.fshape[a]
        for line in itertools.product((0.0, 1.0, 2.0, 3.0), repeat=n):
            sh = [1] * g.d
            sh[a] = n
            fld = np.broadcast_to(np.array(line).reshape(sh), g.fshape)
            phi = g.cell(fld)
            for vname, va in vels:
                u = U.face_from_arrays(g.mesh, va)
                for name, FL in fls:
                    res["evals"] += 1
                    rhs = np.asarray(pf.convectionTVDupwindRHSTerm(u, phi, FL))
                    if np.any(rhs != 0):
                        res["nontrivial"] += 1
                    if not np.all(np.isfinite(rhs)):
                        k = "C13:tvd_nonfinite:%s:%s" % (name, g.cls)
                        if k in reported:
                            continue
                        reported.add(k)
                        res["findings"].append({"key": k,
                                                "msg": "TVD correction not finite on %s with limiter %s, velocity %s, line field %s along axis %d"
                                                       % (U.spec_id(g.spec), name, vname, list(line), a),
                                                "detail": {"grid": U.spec_id(g.spec), "field": list(line), "axis": a}})
    res["sample"] = {"grid": U.spec_id(g.spec), "lines": 4 ** g.fshape[axes[0]]}


def run_case(case):
    res = {"evals": 0, "nontrivial": 0, "findings": [], "outcomes": {}}
    k = case["kind"]
    if k == "table":
        _table_case(case, res)
    elif k == "shapes":
        _shapes_case(res)
    elif k == "containers":
        _containers_case(res)
    elif k == "fallback":
        _fallback_case(res)
    elif k == "tvd":
        _tvd_case(case, res)
    res["outcomes"] = {"%s:%s" % (k, "ok" if not res["findings"] else "viol"): 1}
    return res
