"""C10 - grid geometry is exact: faces, centres, sizes and true cell volumes.

Engine D: complete table over 9 classes x both constructor forms x N in {1..3(4)}^d x
spacing templates x radial origin.  Oracle: geometric closed forms evaluated per cell.
"""
import itertools
import math
from fractions import Fraction as Fr

import numpy as np

from ..env import pf, EPS
from .. import universe as U
from . import labels as LBL

ID = "C10"
LEVEL = "model_checking"
RULE = ("complete table: class x shape N in {1..Nmax}^d x spacing template per axis x radial origin (face form) and "
        "class x shape x 3 length sets (N,L form); per grid every cell volume, centre, size, face is compared with the "
        "closed form; a grid is non-trivial when it has at least one cell (always) - counted per compared cell")
ASSUMPTIONS = [
    "reference volumes are evaluated in double precision from the closed forms with a 64-ulp tolerance "
    "(angles are irrational multiples of pi, so exact rational arithmetic covers the radial/Cartesian factors only)",
    "1-D radial classes and CylindricalGrid2D report the volume of the full circle/sphere (per unit length), as documented",
]


def bounds(tier):
    return {"cells_per_axis": "1..3" if tier == "quick" else "1..4 (3-D: 1..3 + selected 4)",
            "spacing_templates": ["U", "G", "I", "E (nearly equispaced, 1e-6 relative)"], "radial_origin": [0, 0.5],
            "length_units": ["1", "2^-30", "2^-60", "2^40"], "face_array_dtypes": ["float64", "int64"]}


def cases(tier):
    out = []
    for cls in U.CLASSES:
        d = U.dim(cls)
        nmax = 3 if (tier == "quick" or d == 3) else 4
        shp = list(itertools.product(range(1, nmax + 1), repeat=d))
        if tier == "thorough" and d == 3:
            shp += [(4, 1, 2), (1, 4, 2), (2, 1, 4), (4, 4, 4), (4, 2, 3), (3, 4, 1)]
        for shape in shp:
            for sp in itertools.product(["U", "G", "I", "E"], repeat=d):
                if "E" in sp and len(set(sp)) > 1 and d == 3:
                    continue        # 3-D: template E only on all axes at once
                for org in (0, 1):
                    out.append({"kind": "faces", "grid": U.spec(cls, shape, sp, org)})
            # the same grids in very small / very large length units (exact 2^k rescaling)
            for sp in (["I"] * d, ["G"] * d, ["U"] * d):
                for org in (0, 1):
                    for k in (-30, -60, 40):
                        out.append({"kind": "faces", "grid": U.spec(cls, shape, sp, org, k)})
            for li in range(5):
                out.append({"kind": "NL", "cls": cls, "shape": list(shape), "lset": li})
            for org in (0, 1):
                out.append({"kind": "intfaces", "cls": cls, "shape": list(shape), "org": org})
        for sg in U.big_specs([cls]):
            if sg["sp"][0] == "L":
                out.append({"kind": "NL", "cls": cls, "shape": sg["shape"], "lset": 1})
                out.append({"kind": "NL", "cls": cls, "shape": sg["shape"], "lset": 3})
            else:
                out.append({"kind": "faces", "grid": sg})
                out.append({"kind": "faces", "grid": dict(sg, scale=-30)})
        out.append({"kind": "labels", "cls": cls})
        out.append({"kind": "NL_sweep", "cls": cls})
        for other in U.CLASSES:
            out.append({"kind": "two_meshes", "cls": cls, "other": other})
    return out


def ref_volume(cls, fc):
    """Geometric volume of every cell from the face positions (list of 1-D arrays)."""
    d = len(fc)

    def bc(a, ax):
        sh = [1] * d
        sh[ax] = len(a)
        return np.asarray(a, dtype=float).reshape(sh)
    lo = [f[:-1] for f in fc]
    hi = [f[1:] for f in fc]
    if cls == "Grid1D":
        return hi[0] - lo[0]
    if cls == "Grid2D":
        return bc(hi[0] - lo[0], 0) * bc(hi[1] - lo[1], 1)
    if cls == "Grid3D":
        return bc(hi[0] - lo[0], 0) * bc(hi[1] - lo[1], 1) * bc(hi[2] - lo[2], 2)
    r2 = (hi[0] - lo[0]) * (hi[0] + lo[0]) / 2.0          # (r2^2 - r1^2)/2
    r3 = (hi[0] - lo[0]) * (hi[0] ** 2 + hi[0] * lo[0] + lo[0] ** 2) / 3.0   # (r2^3-r1^3)/3
    if cls == "CylindricalGrid1D":
        return 2 * math.pi * r2
    if cls == "SphericalGrid1D":
        return 4 * math.pi * r3
    if cls == "CylindricalGrid2D":
        return 2 * math.pi * bc(r2, 0) * bc(hi[1] - lo[1], 1)
    if cls == "PolarGrid2D":
        return bc(r2, 0) * bc(hi[1] - lo[1], 1)
    if cls == "CylindricalGrid3D":
        return bc(r2, 0) * bc(hi[1] - lo[1], 1) * bc(hi[2] - lo[2], 2)
    if cls == "SphericalGrid3D":
        # cos(th1) - cos(th2) = 2 sin((th1+th2)/2) sin((th2-th1)/2)   (no cancellation)
        dc = 2 * np.sin((lo[1] + hi[1]) / 2) * np.sin((hi[1] - lo[1]) / 2)
        return bc(r3, 0) * bc(dc, 1) * bc(hi[2] - lo[2], 2)
    raise ValueError(cls)


def sph3d_recorded_formula(fc):
    """The non-geometric formula SphericalGrid3D currently implements (open finding C10:
    linear in theta): 4/3 pi (r2^3-r1^3) * dtheta/pi * dphi/(2 pi).  Used as residual oracle."""
    r3 = 4.0 / 3.0 * math.pi * (fc[0][1:] ** 3 - fc[0][:-1] ** 3)
    return (r3[:, None, None] * (np.diff(fc[1]) / math.pi)[None, :, None]
            * (np.diff(fc[2]) / (2 * math.pi))[None, None, :])


def _close(a, b, scale=None, ulps=64):
    a = np.asarray(a, dtype=float)
    b = np.asarray(b, dtype=float)
    if a.shape != b.shape:
        return False
    s = np.maximum(np.abs(a), np.abs(b)) if scale is None else scale
    return bool(np.all(np.abs(a - b) <= ulps * EPS * s + 1e-300))


def _check_mesh(cls, mesh, fc, res, tag, exact_faces=True):
    F = res["findings"]
    d = len(fc)
    sid = tag

    def add(what, msg, **det):
        F.append({"key": "C10:%s:%s" % (what, cls), "msg": "%s: %s" % (sid, msg), "detail": det})
    N = [len(f) - 1 for f in fc]
    if list(int(x) for x in mesh.dims) != N:
        add("dims", "dims %s, expected %s" % (list(mesh.dims), N))
        return
    names = ("_x", "_y", "_z")
    for ax in range(d):
        f = np.asarray(getattr(mesh.facecenters, names[ax]), dtype=float)
        res["evals"] += N[ax]
        L = max(abs(fc[ax][0]), abs(fc[ax][-1]))
        if exact_faces:
            if f.shape != fc[ax].shape or not np.array_equal(f, fc[ax]):
                add("faces", "face positions of axis %d are not the ones given" % ax, axis=ax)
        elif not _close(f, fc[ax], scale=L, ulps=8):
            add("faces_NL", "(N,L) form: face positions of axis %d differ from k*L/N" % ax, axis=ax,
                got=f.tolist(), want=fc[ax].tolist())
        c = np.asarray(getattr(mesh.cellcenters, names[ax]), dtype=float)
        if not _close(c, 0.5 * (fc[ax][1:] + fc[ax][:-1]), scale=L, ulps=8):
            add("centres", "cell centres of axis %d are not midway between the faces" % ax, axis=ax)
        s = np.asarray(getattr(mesh.cellsize, names[ax]), dtype=float)
        dd = np.diff(fc[ax])
        want = np.concatenate([[dd[0]], dd, [dd[-1]]])
        if not _close(s, want, scale=L, ulps=8):
            add("sizes", "cell sizes of axis %d are not the face differences with repeated end cells" % ax, axis=ax,
                got=s.tolist(), want=want.tolist())
        res["nontrivial"] += N[ax]
    V = np.asarray(mesh.cellvolume, dtype=float)
    want = ref_volume(cls, fc)
    res["evals"] += int(want.size)
    res["nontrivial"] += int(want.size)
    if V.shape != tuple(N):
        add("volume_shape", "cellvolume has shape %s for dims %s" % (V.shape, N))
        return
    if not np.all(V > 0):
        add("volume_positive", "cellvolume has non-positive entries")
    if not _close(V, want):
        i = np.unravel_index(int(np.argmax(np.abs(V - want) / want)), V.shape)
        if cls == "SphericalGrid3D" and _close(V, sph3d_recorded_formula(fc)):
            # recorded finding: the value is exactly the documented-wrong theta-linear formula
            F.append({"key": "C10:cellvolume:SphericalGrid3D:theta_linear",
                      "msg": "%s: cellvolume%s = %.12g, geometric shell-sector volume is %.12g (uses dtheta/pi instead of (cos th1-cos th2)/2)"
                             % (sid, list(map(int, i)), V[i], want[i]),
                      "detail": {"cell": list(map(int, i)), "got": float(V[i]), "want": float(want[i])}})
        else:
            add("cellvolume", "cellvolume%s = %.12g, geometric volume is %.12g" % (list(map(int, i)), V[i], want[i]),
                cell=list(map(int, i)), got=float(V[i]), want=float(want[i]))
    # total = volume of the whole domain (closed form of one big cell)
    tot = float(ref_volume(cls, [np.array([f[0], f[-1]]) for f in fc]).sum())
    if abs(float(math.fsum(V.ravel())) - tot) > 256 * EPS * tot:
        if cls == "SphericalGrid3D" and _close(V, sph3d_recorded_formula(fc)):
            pass  # same recorded finding
        else:
            add("volume_total", "sum(cellvolume) = %.12g, domain volume is %.12g" % (float(V.sum()), tot))


def run_case(case):
    res = {"evals": 0, "nontrivial": 0, "findings": [], "outcomes": {}}
    k = case["kind"]
    if k == "faces":
        s = case["grid"]
        fc = U.spec_faces(s)
        mesh = U.make_mesh(s)
        _check_mesh(s["cls"], mesh, fc, res, U.spec_id(s))
        # the geometry must survive ordinary use of the grid: location variables are requested and edited in place
        # (closing the ends of a velocity field, shifting coordinates), terms are built - then everything is re-read
        if not [f for f in res["findings"] if "theta_linear" not in f["key"]] and max(s["shape"]) <= 3 and not s.get("scale"):
            try:
                for loc in (pf.faceLocations(mesh), pf.cellLocations(mesh)):
                    for v in (loc if isinstance(loc, (tuple, list)) else [loc]):
                        if isinstance(v, pf.FaceVariable):
                            for c in U.COMP:
                                a = getattr(v, c)
                                if np.size(a):
                                    a[...] = a * 2.0 + 1.0
                        else:
                            v.value[...] = np.asarray(v.value) * 2.0 + 1.0
                            v.apply_BCs()
                pf.diffusionTerm(pf.FaceVariable(mesh, 1.0))
                V = mesh.cellvolume
                if getattr(V, "flags", None) is not None and V.flags.writeable and not np.shares_memory(V, np.asarray(mesh.cellsize._x)):
                    V[...] = 0.0            # a freshly computed volume array may be edited freely
            except Exception as e:  # noqa: BLE001
                res["findings"].append({"key": "C10:use_exception:%s" % s["cls"], "msg": "%s: using the grid raises %r" % (U.spec_id(s), e), "detail": {}})
            n0 = len(res["findings"])
            _check_mesh(s["cls"], mesh, fc, res, U.spec_id(s) + " after in-place edits of faceLocations/cellLocations results")
            # (the recorded SphericalGrid3D volume finding is reported once, by the first pass)
            res["findings"][n0:] = [f for f in res["findings"][n0:] if "theta_linear" not in f["key"]]
            for f in res["findings"][n0:]:
                f["key"] = f["key"].replace("C10:", "C10:after_use:", 1)
        res["sample"] = {"grid": U.spec_id(s), "faces": [f.tolist() for f in fc]}
    elif k == "NL":
        cls = case["cls"]
        shape = case["shape"]
        kinds = U.AXES[cls]
        lsets = {"lin": [0.75, 1.0, 10.0, 2.0 ** -30, 3e9], "rad": [0.75, 1.0, 10.0, 2.0 ** -30, 3e9],
                 "azi": [2 * math.pi, math.pi / 3, 1.0, 2 * math.pi, 1.0],
                 "pol": [math.pi, math.pi / 2, 1.0, math.pi, 1.0]}
        Ls = [lsets[kd][case["lset"]] for kd in kinds]
        mesh = getattr(pf, cls)(*[int(n) for n in shape], *Ls)
        fc = [np.arange(n + 1) * (L / n) for n, L in zip(shape, Ls)]
        _check_mesh(cls, mesh, fc, res, "%s(N=%s, L=%s)" % (cls, shape, Ls), exact_faces=False)
        # (N, L) form == face-position form on the same equispaced faces
        m2 = getattr(pf, cls)(*[np.asarray(getattr(mesh.facecenters, a)) for a in ("_x", "_y", "_z")[:len(shape)]])
        # face differences carry an absolute error of ~eps*L, i.e. a relative one of ~eps*N per factor
        if not _close(np.asarray(mesh.cellvolume), np.asarray(m2.cellvolume), ulps=16 * max(1, max(shape))):
            res["findings"].append({"key": "C10:NL_vs_faces:%s" % cls, "msg": "(N,L) form and face form give different volumes",
                                    "detail": {"shape": shape, "L": Ls}})
        for a in ("_x", "_y", "_z")[:len(shape)]:
            if not _close(np.asarray(getattr(mesh.cellsize, a)), np.asarray(getattr(m2.cellsize, a)),
                          scale=max(Ls), ulps=8):
                res["findings"].append({"key": "C10:NL_vs_faces:%s" % cls, "msg": "(N,L) form and face form give different cell sizes",
                                        "detail": {"shape": shape, "L": Ls}})
        res["sample"] = {"cls": cls, "shape": shape, "L": Ls}
    elif k == "intfaces":
        # face positions given as integer-typed arrays (and the cell counts of the (N, L) form as
        # numpy integers): "any strictly increasing face positions"
        cls = case["cls"]
        shape = case["shape"]
        fci = [case["org"] + np.concatenate([[0], np.cumsum(np.array([1, 3, 2, 5][:n]))]).astype(np.int64)
               for n in shape]
        kinds = U.AXES[cls]
        ok = all((kd not in ("azi",) or f[-1] <= 6) and (kd != "pol" or f[-1] <= 3) for kd, f in zip(kinds, fci))
        if ok:
            mesh = getattr(pf, cls)(*fci)
            _check_mesh(cls, mesh, [f.astype(float) for f in fci], res, "%s(int faces %s)" % (cls, [f.tolist() for f in fci]))
            m2 = getattr(pf, cls)(*[f.astype(float) for f in fci])
            for a in ("_x", "_y", "_z")[:len(shape)]:
                for attr in ("cellsize", "cellcenters", "facecenters"):
                    if not np.array_equal(np.asarray(getattr(getattr(mesh, attr), a), dtype=float),
                                          np.asarray(getattr(getattr(m2, attr), a), dtype=float)):
                        res["findings"].append({"key": "C10:int_vs_float_faces:%s" % cls,
                                                "msg": "integer-typed and float-typed face arrays give different %s" % attr,
                                                "detail": {"shape": shape}})
        mesh = getattr(pf, cls)(*[np.int64(n) for n in shape], *[U.length(kd, n) for kd, n in zip(kinds, shape)])
        fc = [np.arange(n + 1) * (U.length(kd, n) / n) for kd, n in zip(kinds, shape)]
        _check_mesh(cls, mesh, fc, res, "%s(np.int64 N=%s)" % (cls, shape), exact_faces=False)
        res["sample"] = {"cls": cls, "shape": shape}
    elif k == "NL_sweep":
        # the (N, L) form for every N up to 300 along one axis (the others 2 cells) and a spread of lengths: N cells, N+1 faces
        # from 0 to L, equal sizes - whatever N*(L/N) and L/(L/N) round to
        cls = case["cls"]
        kinds = U.AXES[cls]
        d = len(kinds)
        F = res["findings"]
        Lsets = {"lin": [1.0, 2.0, 10.0, 100.0, 0.75, 1e-3, 2.0 * math.pi, 1.0 / 3.0], "rad": [1.0, 2.0, 10.0, 100.0, 0.75, 1e-3, 2.0 * math.pi, 1.0 / 3.0],
                 "azi": [2.0 * math.pi, 1.0, math.pi / 3.0], "pol": [math.pi, 1.0, math.pi / 2.0]}
        seen = set()
        for ax in range(d):
            for L in Lsets[kinds[ax]]:
                for N in range(1, 301):
                    shape = [2] * d
                    shape[ax] = N
                    Ls = [U.length(kd, 2) for kd in kinds]
                    Ls[ax] = L
                    try:
                        mesh = getattr(pf, cls)(*shape, *Ls)
                        f = np.asarray(getattr(mesh.facecenters, ("_x", "_y", "_z")[ax]), dtype=float)
                        c = np.asarray(getattr(mesh.cellcenters, ("_x", "_y", "_z")[ax]), dtype=float)
                        sz = np.asarray(getattr(mesh.cellsize, ("_x", "_y", "_z")[ax]), dtype=float)
                        V = np.asarray(mesh.cellvolume)
                        ok = (list(int(x) for x in mesh.dims) == shape and f.shape == (N + 1,) and c.shape == (N,) and sz.shape == (N + 2,)
                              and V.shape == tuple(shape) and abs(f[0]) == 0.0 and abs(f[-1] - L) <= 8 * EPS * L
                              and np.all(np.abs(np.diff(f) - L / N) <= 8 * EPS * L) and np.all(np.abs(sz - L / N) <= 8 * EPS * L)
                              and np.all(np.abs(c - 0.5 * (f[1:] + f[:-1])) <= 8 * EPS * L))
                        what = "faces %s, centres %s, sizes %s, volumes %s, last face %r" % (f.shape, c.shape, sz.shape, V.shape, float(f[-1]) if f.size else None)
                    except Exception as e:  # noqa: BLE001
                        ok, what = False, "raises %s: %s" % (type(e).__name__, str(e)[:80])
                    res["evals"] += 1
                    res["nontrivial"] += 1
                    if not ok:
                        key = "C10:NL_sweep:%s:axis=%d" % (cls, ax)
                        if key not in seen:
                            seen.add(key)
                            F.append({"key": key, "msg": "%s(N=%s, L=%s): the (N, L) form does not give N cells of size L/N between N+1 faces from 0 to L (%s)"
                                                         % (cls, shape, Ls, what), "detail": {"cls": cls, "shape": shape, "L": Ls}})
        res["sample"] = {"cls": cls, "N": "1..300"}
    elif k == "two_meshes":
        # a grid keeps its geometry and its labels when grids of other classes are built before and after it
        cls, other = case["cls"], case["other"]
        d, d2 = U.dim(cls), U.dim(other)
        sa = U.spec(cls, (2, 3, 4)[:d], ("I",) * d, 1)
        sb = U.spec(other, (3, 2, 5)[:d2], ("I",) * d2, 0)
        m_before = U.make_mesh(sb)
        mesh = U.make_mesh(sa)
        m_after = U.make_mesh(sb)
        m_after_nl = getattr(pf, other)(*[int(n) for n in sb["shape"]], *[U.length(kd, n) for kd, n in zip(U.AXES[other], sb["shape"])])
        _check_mesh(cls, mesh, U.spec_faces(sa), res, "%s with %s grids built before and after it" % (U.spec_id(sa), other))
        _check_mesh(other, m_before, U.spec_faces(sb), res, "%s (built first) after a %s grid was built" % (U.spec_id(sb), cls))
        LBL.check_mesh_labels(cls, res, "C10")
        for f in res["findings"]:
            f["key"] = f["key"].replace("C10:", "C10:two_meshes:", 1) if "theta_linear" not in f["key"] else f["key"]
        res["sample"] = {"cls": cls, "other": other}
    elif k == "labels":
        LBL.check_mesh_labels(case["cls"], res, "C10")
        LBL.check_face_labels(case["cls"], res, "C10")      # vector components (FaceVariable) as well
    res["outcomes"] = {"%s:%s" % (k, "ok" if not res["findings"] else "viol"): 1}
    return res
