"""C05 - implicit matrix terms == explicit gradient/mean/divergence chain.

Engine A (basis-exhaustive).  For every grid instance of the bound and every unit face
field e_f (one coefficient per face) the matrix of diffusionTerm / convectionTerm /
convectionUpwindTerm is compared entry by entry - i.e. for every unit cell field e_j,
ghost cells included - with divergenceTerm(e_f*gradientTerm(e_j)),
divergenceTerm(e_f*linearMean(e_j)), divergenceTerm(u*upwindMean(e_j, u)).
The operators being bilinear (upwind: linear at fixed direction) this decides the identity
for every field and every coefficient field on that grid.

TVD: FL==0 => RHS==0; FL==1 on uniform grids: upwind*phi - RHS_tvd == central*phi (basis);
named limiters: RHS == -divergenceTerm(u*psi_ref) with a loop-based psi_ref, for all
small-integer fields.
"""
import itertools

import numpy as np

from ..env import pf
from .. import universe as U
from ..opkit import Grid, dense, cmp_tol

ID = "C05"
LEVEL = "model_checking"
RULE = ("cases = grid instances (class x shape x spacing template per axis x radial origin) x part; "
        "inside a case every (unit face field, unit cell field incl. ghosts) pair is evaluated; "
        "a pair is non-trivial when either side of the identity is non-zero; TVD parts enumerate "
        "all fields over {0,1,2} along one axis (lifted in 2-D/3-D) x limiter x velocity pattern")
ASSUMPTIONS = [
    "operators are (bi)linear in coefficient and field (checked separately by C17b), so the basis decides all fields",
    "a face field that is exactly zero everywhere gives divergenceTerm == 0 (evaluated once per grid)",
    "bounds: see `bounds.grids`; grids with more cells are evaluated on generic fields (part `big`), not on the full basis",
]
LIMITERS = ['CHARM', 'HCUS', 'HQUICK', 'ospre', 'VanLeer', 'VanAlbada1', 'VanAlbada2', 'MinMod',
            'SUPERBEE', 'Sweby', 'Osher', 'Koren', 'smart', 'MUSCL', 'QUICK', 'UMIST']


def bounds(tier):
    return {"grids": U.grid_bounds(tier), "thorough_extra": "1-D/2-D shapes with 4 cells in every template" if tier != "quick" else None,
            "tvd_field_alphabet": [0, 1, 2], "velocity_magnitudes": ["1", "2^-40", "2^-70", "2^50"]}


def cases(tier):
    out = []
    if tier == "quick":
        specs = U.grid_specs("quick")
    else:
        specs = U.grid_specs("thorough")
        extra = U.grid_specs("thorough", classes=[c for c in U.CLASSES if U.dim(c) <= 2],
                             shapes_override={1: [(4,)], 2: [(4, 1), (1, 4), (4, 2), (2, 4), (4, 4), (3, 4)]})
        specs = specs + extra
    for s in specs:
        for part in ("diff", "conv", "upw", "upwdir", "upwmag", "tvd01"):
            out.append({"grid": s, "part": part})
    for s in U.big_specs():
        out.append({"grid": s, "part": "big"})
    # limiter sweep on a reduced set of grids
    for s in specs:
        d = U.dim(s["cls"])
        if d == 1 or (tuple(s["shape"]) in ((2, 3), (3, 2), (2, 3, 2), (1, 2, 3)) and
                      (tier == "thorough" or s["org"] == 1)):
            out.append({"grid": s, "part": "tvdref"})
            out.append({"grid": s, "part": "tvddir"})
    return out


# ---------------------------------------------------------------- helpers

def _key(part, g, ax, idx, role):
    return "C05:%s:%s:axis=%d:%s:row=%s" % (part, g.cls, ax, "bface" if g.is_bface(ax, idx) else "iface", role)


def _report(findings, part, g, ax, idx, a, b, extra=None):
    bad = cmp_tol(a, b)
    if not bad.any():
        return
    rows = np.argwhere(bad)
    seen = set()
    for rc in rows[:50]:
        i = int(rc[0])
        role = g.role(i, ax, idx)
        k = _key(part, g, ax, idx, role)
        if k in seen:
            continue
        seen.add(k)
        j = int(rc[1]) if len(rc) > 1 else None
        det = {"grid": U.spec_id(g.spec), "face": [ax, list(idx)], "row_cell": list(g.cell_of_flat(i)),
               "col_cell": list(g.cell_of_flat(j)) if j is not None else None,
               "matrix_side": float(a[tuple(rc)]), "chain_side": float(b[tuple(rc)])}
        if extra:
            det.update(extra)
        findings.append({"key": k, "msg": "%s on %s: matrix term %.6g != explicit chain %.6g at row %s col %s (face axis %d %s)"
                         % (part, U.spec_id(g.spec), det["matrix_side"], det["chain_side"], det["row_cell"],
                            det["col_cell"], ax, list(idx)), "detail": det})


def _div(g, fv):
    return np.asarray(pf.divergenceTerm(fv), dtype=float)


def _bilinear_part(g, part, res):
    """diffusion / central convection: chain(e_f, e_j) via precomputed gradient / mean."""
    findings = res["findings"]
    builder = pf.diffusionTerm if part == "diff" else pf.convectionTerm
    facemap = pf.gradientTerm if part == "diff" else pf.linearMean
    # precompute the face images of every unit cell field
    FJ = []
    for j in range(g.n):
        FJ.append(g.face_arrays(facemap(g.unit_cell(j))))
    zero_div = _div(g, U.zero_face(g.mesh))
    if np.any(zero_div != 0):
        findings.append({"key": "C05:div_of_zero:%s" % g.cls, "msg": "divergenceTerm(0) != 0", "detail": {}})
    for (ax, idx) in g.faces:
        D = g.unit_face(ax, idx)
        M = dense(builder(D))
        chain = np.zeros((g.n, g.n))
        for j in range(g.n):
            v = FJ[j][ax][idx]
            res["evals"] += 1
            if v == 0.0:
                chain[:, j] = zero_div
                continue
            prod = D * U.face_from_arrays(g.mesh, FJ[j])
            chain[:, j] = _div(g, prod)
        a = M[g.imask]
        b = chain[g.imask]
        res["nontrivial"] += int(np.count_nonzero((a != 0) | (b != 0)))
        # map row indices of the interior sub-matrix back to flat cell numbers
        rows = np.flatnonzero(g.imask)
        bad = cmp_tol(a, b)
        if bad.any():
            af = np.zeros((g.n, g.n))
            bf = np.zeros((g.n, g.n))
            af[rows] = a
            bf[rows] = b
            _report(findings, part, g, ax, idx, af, bf)


def _upwind_part(g, res):
    findings = res["findings"]
    zero_div = _div(g, U.zero_face(g.mesh))
    rows = np.flatnonzero(g.imask)
    for (ax, idx) in g.faces:
        for s in (1.0, -1.0):
            u = g.unit_face(ax, idx, s)
            M = dense(pf.convectionUpwindTerm(u))
            chain = np.zeros((g.n, g.n))
            for j in range(g.n):
                res["evals"] += 1
                um = pf.upwindMean(g.unit_cell(j), u)
                v = getattr(um, U.COMP[ax])[idx]
                if v == 0.0:
                    chain[:, j] = zero_div
                else:
                    chain[:, j] = _div(g, u * um)
            af = np.zeros((g.n, g.n))
            bf = np.zeros((g.n, g.n))
            af[rows] = M[rows]
            bf[rows] = chain[rows]
            res["nontrivial"] += int(np.count_nonzero((af != 0) | (bf != 0)))
            _report(findings, "upw", g, ax, idx, af, bf, {"u_sign": s})


def _dir_patterns(g):
    """Upwind-direction fields (all entries +-1): all+, all-, two checkerboards; 1-D: all."""
    pats = []
    if g.d == 1:
        F = g.face_shapes[0][0]
        for bits in itertools.product((1.0, -1.0), repeat=F):
            pats.append([np.array(bits)])
        return pats
    for mode in range(4):
        arrs = []
        for ax, s in enumerate(g.face_shapes):
            if mode == 0:
                arrs.append(np.ones(s))
            elif mode == 1:
                arrs.append(-np.ones(s))
            else:
                par = np.indices(s).sum(axis=0) % 2
                a = np.where(par == 0, 1.0, -1.0)
                arrs.append(a if mode == 2 else -a)
        pats.append(arrs)
    # every combination of one direction per axis (the uniform ones are modes 0 and 1)
    for sg in U.axis_sign_patterns(g.d, with_zero=False):
        if len(set(sg)) > 1:
            pats.append([s_ * np.ones(s) for s_, s in zip(sg, g.face_shapes)])
    return pats


def _zero_dir_patterns(g):
    """Direction fields that are exactly zero on some faces (checkerboard of 0 / +-1) or everywhere."""
    out = []
    for mode in range(3):
        arrs = []
        for s in g.face_shapes:
            par = np.indices(s).sum(axis=0) % 2
            if mode == 0:
                arrs.append(np.zeros(s))
            else:
                arrs.append(np.where(par == (mode - 1), 0.0, np.where(par == 0, 1.0, -1.0)))
        out.append(arrs)
    return out


def _upwind_dir_part(g, res):
    """convectionUpwindTerm(u, u_upwind) with an explicit direction field, generic signed u."""
    findings = res["findings"]
    rows = np.flatnonzero(g.imask)
    u = U.generic_face(g.mesh, tag=5, signed=True)
    pats = [(False, a) for a in _dir_patterns(g)] + [(True, a) for a in _zero_dir_patterns(g)]
    for pi, (has_zero, arrs) in enumerate(pats):
        uup = U.face_from_arrays(g.mesh, arrs)
        M = dense(pf.convectionUpwindTerm(u, uup))
        chain = np.zeros((g.n, g.n))
        for j in range(g.n):
            res["evals"] += 1
            chain[:, j] = _div(g, u * pf.upwindMean(g.unit_cell(j), uup))
        a = M[rows]
        b = chain[rows]
        res["nontrivial"] += int(np.count_nonzero((a != 0) | (b != 0)))
        bad = cmp_tol(a, b)
        if bad.any():
            rc = np.argwhere(bad)[0]
            i = int(rows[rc[0]])
            findings.append({
                "key": ("C05:upwdir_zero_direction:%s" if has_zero else "C05:upwdir:%s") % g.cls,
                "msg": "convectionUpwindTerm(u, u_upwind) on %s differs from divergenceTerm(u*upwindMean(phi,u_upwind)): %.6g vs %.6g at row %s col %s (direction pattern %d)"
                       % (U.spec_id(g.spec), a[tuple(rc)], b[tuple(rc)], list(g.cell_of_flat(i)),
                          list(g.cell_of_flat(int(rc[1]))), pi),
                "detail": {"grid": U.spec_id(g.spec), "pattern": pi}})


MAGS = [2.0 ** -40, 2.0 ** -70, 2.0 ** 50]


def _upwind_mag_part(g, res):
    """The upwind identity for velocities (and explicit direction fields) of very small / very large
    magnitude - slow flows in SI units, fast ones in micro-units; every sign pattern of _dir_patterns
    (1-D: all) on a generic |u|.  The donor cell depends on the sign of the direction only."""
    findings = res["findings"]
    rows = np.flatnonzero(g.imask)
    absu = g.face_arrays(U.generic_face(g.mesh, tag=5, signed=False))
    pats = _dir_patterns(g)
    if g.d == 1 and len(pats) > 16:
        pats = pats[:8] + pats[-8:]
    for mag in MAGS:
        for pi, sg in enumerate(pats):
            u = U.face_from_arrays(g.mesh, [a * s_ * mag for a, s_ in zip(absu, sg)])
            one = U.face_from_arrays(g.mesh, [a * s_ for a, s_ in zip(absu, sg)])
            tiny_dir = U.face_from_arrays(g.mesh, [s_ * mag for s_ in sg])
            variants = [("u", dense(pf.convectionUpwindTerm(u)), u, u)]
            if pi < 4:
                variants.append(("u_upwind", dense(pf.convectionUpwindTerm(one, tiny_dir)), one, tiny_dir))
            for what, M, uu, dd in variants:
                chain = np.zeros((g.n, g.n))
                for j in range(g.n):
                    res["evals"] += 1
                    chain[:, j] = _div(g, uu * pf.upwindMean(g.unit_cell(j), dd))
                a = M[rows]
                b = chain[rows]
                res["nontrivial"] += int(np.count_nonzero((a != 0) | (b != 0)))
                bad = cmp_tol(a, b)
                if bad.any():
                    rc = np.argwhere(bad)[0]
                    i = int(rows[rc[0]])
                    findings.append({
                        "key": "C05:upwmag:%s:%s" % (what, g.cls),
                        "msg": "convectionUpwindTerm on %s with |%s| ~ %.3g (sign pattern %d) differs from divergenceTerm(u*upwindMean(phi,.)): %.6g vs %.6g at row %s col %s"
                               % (U.spec_id(g.spec), what, mag, pi, a[tuple(rc)], b[tuple(rc)], list(g.cell_of_flat(i)),
                                  list(g.cell_of_flat(int(rc[1])))),
                        "detail": {"grid": U.spec_id(g.spec), "pattern": pi, "magnitude": mag}})
                    break


def _big_part(g, res):
    """Many cells per axis: the identities on generic coefficient fields (all four global sign patterns of the
    velocity) and two generic cell fields including ghost values."""
    findings = res["findings"]
    rows = np.flatnonzero(g.imask)
    phis = [U.generic_array(g.fshape, tag=21, signed=True), U.generic_array(g.fshape, tag=23, signed=False)]
    D = U.generic_face(g.mesh, tag=25)
    absu = g.face_arrays(U.generic_face(g.mesh, tag=27))
    FL = pf.fluxLimiter("Koren")

    def rep(what, a, b, extra=""):
        res["evals"] += 1
        res["nontrivial"] += 1
        bad = cmp_tol(a[rows], b[rows], rel=1e-11)
        if bad.any():
            i = int(rows[np.flatnonzero(bad)[0]])
            findings.append({"key": "C05:big:%s:%s" % (what, g.cls),
                             "msg": "%s on %s%s: matrix side %.12g, explicit chain %.12g in cell %s"
                                    % (what, U.spec_id(g.spec), extra, a[i], b[i], list(g.cell_of_flat(i))), "detail": {"grid": U.spec_id(g.spec)}})
    # the same coefficient fields held in Fortran order / as strided views (not C-contiguous)
    if g.d > 1:
        def relayout(arrs, k):
            out = []
            for a in arrs:
                if k == 0:
                    out.append(np.asfortranarray(a))
                else:
                    big = np.zeros(tuple(2 * n for n in a.shape))
                    v_ = big[tuple(slice(None, None, 2) for _ in a.shape)]
                    v_[...] = a
                    out.append(v_)
            return out
        phi = g.cell(phis[0])
        x = phis[0].ravel()
        for k, lab in enumerate(("Fortran-ordered", "strided")):
            Dn = U.FaceVariable_from_views(g.mesh, relayout(g.face_arrays(D), k))
            un = U.FaceVariable_from_views(g.mesh, relayout([a * s_ for a, s_ in zip(absu, _dir_patterns(g)[3])], k))
            rep("diffusionTerm", pf.diffusionTerm(Dn) @ x, _div(g, Dn * pf.gradientTerm(phi)), " (%s coefficient arrays)" % lab)
            rep("convectionTerm", pf.convectionTerm(un) @ x, _div(g, un * pf.linearMean(phi)), " (%s coefficient arrays)" % lab)
            rep("convectionUpwindTerm", pf.convectionUpwindTerm(un) @ x, _div(g, un * pf.upwindMean(phi, un)), " (%s coefficient arrays)" % lab)
    # layered media: coefficient and cell fields that vary along one axis only
    if g.d > 1:
        for vax in (0, g.d - 1):
            Dl = U.face_from_arrays(g.mesh, [U.layered_array(s_, vax, tag=61 + a_) for a_, s_ in enumerate(g.face_shapes)])
            ul = U.face_from_arrays(g.mesh, [U.layered_array(s_, vax, tag=65 + a_, signed=True) for a_, s_ in enumerate(g.face_shapes)])
            fl = U.layered_array(g.fshape, (vax + 1) % g.d, tag=69, signed=True)
            phil = g.cell(fl)
            xl = fl.ravel()
            lab = " (fields varying along axis %d only)" % vax
            rep("diffusionTerm", pf.diffusionTerm(Dl) @ xl, _div(g, Dl * pf.gradientTerm(phil)), lab)
            rep("convectionTerm", pf.convectionTerm(ul) @ xl, _div(g, ul * pf.linearMean(phil)), lab)
            rep("convectionUpwindTerm", pf.convectionUpwindTerm(ul) @ xl, _div(g, ul * pf.upwindMean(phil, ul)), lab)
    for fld in phis:
        phi = g.cell(fld)
        x = fld.ravel()
        rep("diffusionTerm", pf.diffusionTerm(D) @ x, _div(g, D * pf.gradientTerm(phi)))
        for pi, sg in enumerate(_dir_patterns(g) if g.d > 1 else [[np.ones(g.face_shapes[0])], [-np.ones(g.face_shapes[0])],
                                                                      [np.where(np.arange(g.face_shapes[0][0]) % 2 == 0, 1.0, -1.0)],
                                                                      [np.where(np.arange(g.face_shapes[0][0]) % 3 == 0, -1.0, 1.0)]]):
            u = U.face_from_arrays(g.mesh, [a * s_ for a, s_ in zip(absu, sg)])
            rep("convectionTerm", pf.convectionTerm(u) @ x, _div(g, u * pf.linearMean(phi)), " (sign pattern %d)" % pi)
            rep("convectionUpwindTerm", pf.convectionUpwindTerm(u) @ x, _div(g, u * pf.upwindMean(phi, u)), " (sign pattern %d)" % pi)
            rhs = np.asarray(pf.convectionTVDupwindRHSTerm(u, phi, FL), dtype=float)
            psi = psi_ref(g, fld, [a * s_ for a, s_ in zip(absu, sg)], FL)
            if all(np.all(np.isfinite(p_)) for p_ in psi):
                rep("convectionTVDupwindRHSTerm", rhs, -_div(g, u * U.face_from_arrays(g.mesh, psi)), " (sign pattern %d)" % pi)


def _FL0(r):
    return 0.0 * r


def _FL1(r):
    return 0.0 * r + 1.0


def _int_fields_1d(n, alphabet=(0.0, 1.0, 2.0)):
    return [np.array(t) for t in itertools.product(alphabet, repeat=n)]


def _lifted_fields(g, alphabet=(0.0, 1.0, 2.0)):
    """All fields over the alphabet along one axis, constant along the others (ghosts incl.)."""
    out = []
    for ax in range(g.d):
        for line in _int_fields_1d(g.fshape[ax], alphabet):
            sh = [1] * g.d
            sh[ax] = g.fshape[ax]
            out.append(np.broadcast_to(line.reshape(sh), g.fshape).copy())
    return out


def _vel_patterns(g):
    pats = []
    base = U.generic_face(g.mesh, tag=9, signed=False)
    arrs = g.face_arrays(base)
    pats.append(("plus", arrs))
    pats.append(("minus", [-a for a in arrs]))
    alt = []
    for a in arrs:
        par = np.indices(a.shape).sum(axis=0) % 2
        alt.append(np.where(par == 0, a, -a))
    pats.append(("alt", alt))
    return pats


def _tvd01_part(g, res):
    findings = res["findings"]
    uniform = all(s == "U" for s in g.spec["sp"])
    rows = np.flatnonzero(g.imask)
    # (i) FL == 0 => RHS == 0 for all lifted small-integer fields and velocity patterns
    fields = _lifted_fields(g)
    fields.append(U.generic_array(g.fshape, tag=3, signed=True))
    for name, arrs in _vel_patterns(g):
        u = U.face_from_arrays(g.mesh, arrs)
        for fi, fld in enumerate(fields):
            res["evals"] += 1
            rhs = np.asarray(pf.convectionTVDupwindRHSTerm(u, g.cell(fld), _FL0), dtype=float)
            res["nontrivial"] += 1
            if not np.all(rhs == 0.0):
                findings.append({"key": "C05:tvd_FL0:%s" % g.cls,
                                 "msg": "TVD correction with zero limiter is not zero on %s (max %.3g, velocity %s)"
                                        % (U.spec_id(g.spec), float(np.nanmax(np.abs(rhs))), name),
                                 "detail": {"grid": U.spec_id(g.spec), "field": fld.tolist()}})
                break
    # (ii) FL == 1 on uniform grids: upwind*phi - RHS == central*phi, basis in phi, u = +-e_f
    if uniform:
        for (ax, idx) in g.faces:
            for s in (1.0, -1.0):
                u = g.unit_face(ax, idx, s)
                Mu = dense(pf.convectionUpwindTerm(u))
                Mc = dense(pf.convectionTerm(u))
                lhs = np.zeros((g.n, g.n))
                for j in range(g.n):
                    res["evals"] += 1
                    rhs = np.asarray(pf.convectionTVDupwindRHSTerm(u, g.unit_cell(j), _FL1), dtype=float)
                    lhs[:, j] = Mu[:, j] - rhs
                af = np.zeros((g.n, g.n))
                bf = np.zeros((g.n, g.n))
                af[rows] = lhs[rows]
                bf[rows] = Mc[rows]
                res["nontrivial"] += int(np.count_nonzero((af != 0) | (bf != 0)))
                _report(findings, "tvd_FL1", g, ax, idx, af, bf, {"u_sign": s})


def psi_ref(g, full, uarrs, FL, darrs=None):
    """Loop-based reference face correction psi (arrays per axis): the standard TVD
    reconstruction phi_f = phi_U + 0.5*psi(r)*(phi_D-phi_U), r = (grad upstream)/(grad across),
    zero on the boundary face where the upstream cell does not exist; psi = 0 when
    phi_D == phi_U (then the limiter value is immaterial)."""
    mesh = g.mesh
    out = []
    sizes = [np.asarray(getattr(mesh.cellsize, a)) for a in ("_x", "_y", "_z")[:g.d]]
    for ax in range(g.d):
        DX = sizes[ax]
        dx = 0.5 * (DX[:-1] + DX[1:])
        N = g.dims[ax]
        psi = np.zeros(g.face_shapes[ax])
        for idx in np.ndindex(*g.face_shapes[ax]):
            uf = (darrs if darrs is not None else uarrs)[ax][idx]      # upwind direction
            if uf == 0.0:
                continue
            k = idx[ax]                      # face between ghost-inclusive cells k and k+1

            def val(m):
                c = [i + 1 for i in idx]
                c[ax] = m
                return full[tuple(c)]
            if uf > 0:
                if k == 0:
                    continue
                num = (val(k) - val(k - 1)) / dx[k - 1]
                den = (val(k + 1) - val(k)) / dx[k]
                if val(k + 1) == val(k):
                    continue
                psi[idx] = 0.5 * float(FL(np.array(num / den))) * (val(k + 1) - val(k))
            else:
                if k == N:
                    continue
                num = (val(k + 2) - val(k + 1)) / dx[k + 1]
                den = (val(k + 1) - val(k)) / dx[k]
                if val(k + 1) == val(k):
                    continue
                psi[idx] = 0.5 * float(FL(np.array(num / den))) * (val(k) - val(k + 1))
        out.append(psi)
    return out


def _tvdref_part(g, res):
    findings = res["findings"]
    rows = np.flatnonzero(g.imask)
    fields = _lifted_fields(g)
    lims = LIMITERS if g.d == 1 else ['Koren', 'VanLeer', 'SUPERBEE', 'MinMod']
    reported = set()
    for lname in lims:
        FL = pf.fluxLimiter(lname)
        for vname, arrs in _vel_patterns(g):
            u = U.face_from_arrays(g.mesh, arrs)
            for fld in fields:
                res["evals"] += 1
                rhs = np.asarray(pf.convectionTVDupwindRHSTerm(u, g.cell(fld), FL), dtype=float)
                psi = psi_ref(g, fld, arrs, FL)
                if not all(np.all(np.isfinite(p)) for p in psi):
                    res["precond_failed"] = res.get("precond_failed", 0) + 1
                    continue     # limiter itself not finite: C13's subject
                ref = -_div(g, u * U.face_from_arrays(g.mesh, psi))
                a = rhs[rows]
                b = ref[rows]
                if np.any(a != 0) or np.any(b != 0):
                    res["nontrivial"] += 1
                bad = cmp_tol(a, b, rel=1e-11)
                if bad.any():
                    i = int(rows[np.flatnonzero(bad)[0]])
                    k = "C05:tvd_ref:%s" % g.cls
                    if (k, lname) in reported:
                        continue
                    reported.add((k, lname))
                    findings.append({"key": k,
                                     "msg": "TVD correction (%s, velocity %s) on %s is %.6g, reference -div(u*psi) is %.6g at cell %s"
                                            % (lname, vname, U.spec_id(g.spec), rhs[i], ref[i], list(g.cell_of_flat(i))),
                                     "detail": {"grid": U.spec_id(g.spec), "limiter": lname, "velocity": vname,
                                                "field": fld.tolist()}})


def weight(case):
    sh = case["grid"]["shape"]
    n = int(np.prod([k + 2 for k in sh]))
    w = {"diff": 1, "conv": 1, "upw": 4, "upwdir": 1, "upwmag": 3, "tvd01": 3, "tvdref": 6, "tvddir": 6, "big": 0.02}[case["part"]]
    return n * n * len(sh) * w


def _tvddir_part(g, res):
    """TVD correction with an explicit upwind-direction field (4th argument), direction != sign(u)."""
    findings = res["findings"]
    rows = np.flatnonzero(g.imask)
    fields = _lifted_fields(g)
    u = U.generic_face(g.mesh, tag=13, signed=True)
    uarr = g.face_arrays(u)
    reported = set()
    for lname in (['Koren', 'VanLeer', 'SUPERBEE'] if g.d == 1 else ['Koren']):
        FL = pf.fluxLimiter(lname)
        pats = _dir_patterns(g)
        if g.d == 1:
            pats = pats[::max(1, len(pats) // 6)]
        for pi, darr in enumerate(pats):
            uup = U.face_from_arrays(g.mesh, darr)
            for fld in fields:
                res["evals"] += 1
                rhs = np.asarray(pf.convectionTVDupwindRHSTerm(u, g.cell(fld), FL, uup), dtype=float)
                psi = psi_ref(g, fld, uarr, FL, darr)
                if not all(np.all(np.isfinite(p)) for p in psi):
                    continue
                ref = -_div(g, u * U.face_from_arrays(g.mesh, psi))
                a, b = rhs[rows], ref[rows]
                if np.any(a != 0) or np.any(b != 0):
                    res["nontrivial"] += 1
                bad = cmp_tol(a, b, rel=1e-11)
                if bad.any():
                    k = "C05:tvd_dir:%s" % g.cls
                    if k in reported:
                        continue
                    reported.add(k)
                    i = int(rows[np.flatnonzero(bad)[0]])
                    findings.append({"key": k,
                                     "msg": "TVD correction (%s) with explicit upwind direction (pattern %d) on %s is %.6g, reference -div(u*psi) with that direction is %.6g at cell %s"
                                            % (lname, pi, U.spec_id(g.spec), rhs[i], ref[i], list(g.cell_of_flat(i))),
                                     "detail": {"grid": U.spec_id(g.spec), "limiter": lname, "pattern": pi, "field": fld.tolist()}})


def run_case(case):
    g = Grid(case["grid"])
    res = {"evals": 0, "nontrivial": 0, "findings": [], "outcomes": {}}
    part = case["part"]
    if part in ("diff", "conv"):
        _bilinear_part(g, part, res)
    elif part == "upw":
        _upwind_part(g, res)
    elif part == "upwmag":
        _upwind_mag_part(g, res)
    elif part == "big":
        _big_part(g, res)
    elif part == "upwdir":
        _upwind_dir_part(g, res)
    elif part == "tvd01":
        _tvd01_part(g, res)
    elif part == "tvdref":
        _tvdref_part(g, res)
    elif part == "tvddir":
        _tvddir_part(g, res)
    res["outcomes"] = {"%s:%s" % (part, "ok" if not res["findings"] else "viol"): 1}
    res["sample"] = {"grid": U.spec_id(g.spec), "part": part, "faces": len(g.faces), "cells_incl_ghosts": g.n}
    return res
