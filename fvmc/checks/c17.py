"""C17 - results do not depend on the unit system (dimensional homogeneity); terms are
linear in their coefficient fields.

(a) metamorphic, engine B: every configuration of a reduced lattice (9 classes x spacing x BC
    set-up x term subset incl. TVD x 3 time steps, implicit and explicit) is run in two unit
    systems related by (L, T, K); every input is rescaled by its dimension.  Power-of-two
    factors must reproduce the solution to 4 ulp after division by K; decimal factors to
    64*eps*cond.
(b) engine A: T(lambda*c) == lambda*T(c) exactly for lambda = 2^k and T(c1+c2) == T(c1)+T(c2)
    on all pairs of unit coefficient fields, for diffusion, central, upwind at fixed upwind
    direction, linear and constant source terms.
"""
import itertools

import numpy as np

from ..env import pf, EPS
from .. import universe as U
from ..opkit import Grid, dense

ID = "C17"
LEVEL = "model_checking"
RULE = ("(a) configurations = grid instance x BC set-up x term subset x scheme, each run under every (L,T,K) triple of the "
        "scale alphabet; one (configuration, triple) = one distinct case, non-trivial when the solution is non-zero; "
        "(b) every unit face coefficient x scale and every pair of unit face coefficients per grid instance")
ASSUMPTIONS = ["exponents +-20 keep all quantities far from the library's absolute guards (1e-16 in _fsign, 2e-16 in the limiters)",
               "power-of-two rescaling is exact in IEEE arithmetic, so 4 ulp is the expected agreement on homogeneous code"]
POW2 = [2.0 ** -20, 2.0 ** -7, 2.0 ** 3, 2.0 ** 20]
DEC = [1e-6, 1e-3, 1e3, 1e6]
TERMSETS = [("D",), ("D", "C"), ("D", "U"), ("D", "U", "T"), ("D", "U", "B", "G"), ("D", "U", "T", "B", "G")]
SETUPS = ["robin", "mixed", "periodic"]
SHAPES = {1: [(3,)], 2: [(2, 3)], 3: [(2, 2, 2)]}
LIN_SHAPES = {1: [(1,), (2,), (3,)], 2: [(1, 1), (2, 2), (2, 3)], 3: [(1, 1, 1), (2, 2, 2), (1, 2, 2)]}


def bounds(tier):
    return {"extreme_triples_without_TVD": [[str(x) for x in t[:3]] for t in EXTREME], "scale_alphabet_pow2": [str(x) for x in POW2], "scale_alphabet_decimal": [str(x) for x in DEC],
            "triples": "4 diagonal + 8 mixed (quick) / all 4^3 + decimal (thorough)", "steps": 3}


def triples(tier):
    if tier == "thorough":
        out = [(a, b, c, True) for a, b, c in itertools.product(POW2, repeat=3)]
        out += [(a, b, c, False) for a, b, c in itertools.product([1e-3, 1e3], repeat=3)] + [(1e6, 1e-6, 1e6, False), (1e-6, 1e6, 1e-6, False)]
        return out
    out = [(a, a, a, True) for a in POW2]
    out += [(POW2[0], POW2[3], POW2[2], True), (POW2[3], POW2[0], POW2[1], True), (POW2[1], 1.0, 1.0, True), (1.0, POW2[2], 1.0, True),
            (1.0, 1.0, POW2[3], True), (POW2[2], POW2[1], POW2[0], True), (POW2[3], POW2[3], POW2[0], True), (POW2[0], POW2[0], POW2[3], True)]
    out += [(1e3, 1e-3, 1e3, False), (1e-6, 1e3, 1e6, False)]
    return out


# unit systems far from O(1) (nanometres, picomoles, gigaseconds): used with the term sets without the TVD
# correction, whose limiter guards are absolute (see ASSUMPTIONS)
EXTREME = [(2.0 ** -40, 1.0, 1.0, True), (2.0 ** -30, 2.0 ** -10, 2.0 ** 30, True), (1.0, 1.0, 2.0 ** -70, True),
           (2.0 ** 50, 2.0 ** 50, 2.0 ** 50, True), (2.0 ** -40, 2.0 ** -40, 2.0 ** -40, True), (2.0 ** -33, 2.0 ** 33, 1.0, True)]


def cases(tier):
    out = []
    templates = ["U", "I"] if tier == "quick" else ["U", "G", "I"]
    for cls in U.CLASSES:
        d = U.dim(cls)
        for shape in SHAPES[d] if tier == "quick" else LIN_SHAPES[d]:
            for t in templates:
                for org in (0, 1):
                    for setup in SETUPS:
                        sp = [t] * d
                        if setup == "periodic":
                            pax = U.periodic_axis(cls, shape, org)
                            if pax is not None:
                                sp[pax] = "U"
                        out.append({"grid": U.spec(cls, shape, tuple(sp), org), "setup": setup, "part": "units", "tier": tier})
        # grids built with the (N, L) constructor form (unequal cell widths per axis)
        for shape in sorted(set(SHAPES[d] + LIN_SHAPES[d])):
            for setup in SETUPS:
                out.append({"grid": U.spec(cls, shape, ("L",) * d, 0), "setup": setup, "part": "units", "tier": tier})
            out.append({"grid": U.spec(cls, shape, ("L",) * d, 0), "part": "opunits"})
        for shape in LIN_SHAPES[d]:
            for t in templates:
                for org in (0, 1):
                    out.append({"grid": U.spec(cls, shape, (t,) * d, org), "part": "linear"})
                    out.append({"grid": U.spec(cls, shape, (t,) * d, org), "part": "opunits"})
    return out


def weight(case):
    n = int(np.prod([k + 2 for k in case["grid"]["shape"]]))
    return n * (40 if case["part"] == "units" else (8 if case["part"] == "opunits" else n))


def scaled_mesh(spec, L):
    kinds = U.AXES[spec["cls"]]
    if spec["sp"][0] == "L":
        # the (N, L) constructor form, with a different cell width on every axis (lengths 0.25 N (1 + axis/2))
        return getattr(pf, spec["cls"])(*[int(n) for n in spec["shape"]],
                                        *[U.length(k, n) * ((1.0 + 0.5 * ax) * L if k in ("lin", "rad") else 1.0)
                                          for ax, (k, n) in enumerate(zip(kinds, spec["shape"]))])
    fc = U.spec_faces(spec)
    fc = [f * L if k in ("lin", "rad") else f for f, k in zip(fc, kinds)]
    return getattr(pf, spec["cls"])(*fc)


def run_config(spec, setup, ts, scheme, L, T, K):
    """Run 3 steps in the unit system (L, T, K); returns final full array / K and cond estimate."""
    cls = spec["cls"]
    d = U.dim(cls)
    kinds = U.AXES[cls]
    mesh = scaled_mesh(spec, L)
    dims = tuple(int(k) for k in mesh.dims)
    Dg = U.generic_face(mesh, tag=501)
    ug = U.generic_face(mesh, tag=503, signed=True)
    D = Dg * (L * L / T / 8.0)
    u = ug * (L / T / 4.0)
    beta = pf.CellVariable(mesh, (0.5 + U.generic_array(dims, tag=505) / 16.0) / T)
    gamma = pf.CellVariable(mesh, U.generic_array(dims, tag=507, signed=True) * (K / T))
    bc = pf.BoundaryConditions(mesh)
    pax = U.periodic_axis(cls, dims, spec["org"]) if setup == "periodic" else None
    t = 0
    for ax in range(d):
        for hi, side in enumerate(U.SIDES[ax]):
            bf = getattr(bc, side)
            t += 1
            if ax == pax:
                # either face declares the axis periodic: both / low only / high only, chosen from the grid
                if U.flag_mode(sum(dims), spec["org"], len(cls)) in ("both", ("lo", "hi")[hi]):
                    bf.periodic = True
            elif setup == "robin":
                bf.a = 1.0 * L
                bf.b = (8.0 + t) * (1.0 if hi else -1.0)
                bf.c = 0.5 * t * K * (1.0 if hi else -1.0)
            elif setup == "mixed":
                if not hi:
                    bf.fixedValue((1.0 + 0.25 * t) * K)
                else:
                    bf.fixedGradient(0.125 * t * K / L)
            else:
                bf.fixedValue(0.5 * t * K)
    phi = pf.CellVariable(mesh, U.generic_array(dims, tag=509, signed=True) * K, bc)
    FL = pf.fluxLimiter("Koren")
    dt = 2.0 ** -6 * T
    kappa = 1.0
    for step in range(3):
        if scheme == "implicit":
            eq = [pf.transientTerm(phi, dt, 1.5)]
            if "D" in ts:
                eq.append(-pf.diffusionTerm(D))
            if "C" in ts:
                eq.append(pf.convectionTerm(u))
            if "U" in ts:
                eq.append(pf.convectionUpwindTerm(u))
            if "T" in ts:
                eq.append(pf.convectionTVDupwindRHSTerm(u, phi, FL))
            if "B" in ts:
                eq.append(pf.linearSourceTerm(beta))
            if "G" in ts:
                eq.append(pf.constantSourceTerm(gamma))
            if step == 0:
                M = dense(phi._BCsTerm[0])
                for tm in eq:
                    if isinstance(tm, tuple):
                        M = M + dense(tm[0])
                    elif getattr(tm, "ndim", 0) == 2:
                        M = M + dense(tm)
                rs = np.max(np.abs(M), axis=1)
                rs[rs == 0] = 1.0
                kappa = float(np.linalg.cond(M / rs[:, None], np.inf)) if np.all(np.isfinite(M)) else np.inf
            pf.solvePDE(phi, eq)
        else:
            dte = dt / 64.0
            rhs = np.zeros(int(np.prod([k + 2 for k in dims])))
            if "D" in ts:
                rhs = rhs + pf.divergenceTerm(D * pf.gradientTerm(phi))
            if "C" in ts:
                rhs = rhs - pf.divergenceTerm(u * pf.linearMean(phi))
            if "U" in ts:
                rhs = rhs - pf.divergenceTerm(u * pf.upwindMean(phi, u))
            if "T" in ts:
                rhs = rhs + pf.convectionTVDupwindRHSTerm(u, phi, FL)
            if "B" in ts:
                rhs = rhs - pf.linearSourceTerm(beta) @ np.asarray(phi._value).ravel()
            if "G" in ts:
                rhs = rhs + pf.constantSourceTerm(gamma)
            phi = pf.solveExplicitPDE(phi, dte, rhs)
    return np.asarray(phi._value, dtype=float) / K, kappa


def _opunits_part(case, res):
    """Dimensional homogeneity term by term: the grid in length units of 2^k (lengths x L, angles unchanged) with D x L^2 and
    u x L gives bit-identical diffusion / central / upwind matrices and TVD vectors (all of dimension 1/T resp. K/T); the
    gradient scales by 1/L exactly.  All combinations of one flow direction per axis, two generic fields, three limiters."""
    spec = case["grid"]
    F = res["findings"]
    gid = U.spec_id(spec)
    cls = spec["cls"]
    d = U.dim(cls)
    base = scaled_mesh(spec, 1.0)
    dims = tuple(int(k) for k in base.dims)
    full = tuple(k + 2 for k in dims)
    fshapes = U.face_shapes(base)
    Darr = [U.generic_array(s_, tag=521 + a_) for a_, s_ in enumerate(fshapes)]
    absu = [U.generic_array(s_, tag=525 + a_) for a_, s_ in enumerate(fshapes)]
    flds = [U.generic_array(full, tag=529, signed=True), U.generic_array(full, tag=531)]
    seen = set()

    def build(mesh, L, sg, fld, lname):
        D = U.face_from_arrays(mesh, [a_ * L * L for a_ in Darr])
        u = U.face_from_arrays(mesh, [a_ * s_ * L for a_, s_ in zip(absu, sg)])
        phi = pf.CellVariable(mesh, fld.copy())
        gr = pf.gradientTerm(phi)
        return {"diffusionTerm": dense(pf.diffusionTerm(D)), "convectionTerm": dense(pf.convectionTerm(u)),
                "convectionUpwindTerm": dense(pf.convectionUpwindTerm(u)),
                "convectionTVDupwindRHSTerm": np.asarray(pf.convectionTVDupwindRHSTerm(u, phi, pf.fluxLimiter(lname)), dtype=float),
                "divergenceTerm": np.asarray(pf.divergenceTerm(u), dtype=float),
                "gradientTerm": [np.asarray(getattr(gr, c_), dtype=float) for c_ in U.COMP[:d]]}
    kinds = U.AXES[cls]
    for sg in U.axis_sign_patterns(d, with_zero=False):
        for fi, fld in enumerate(flds):
            for lname in (("Koren", "SUPERBEE", "VanLeer") if fi == 0 else ("Koren",)):
                ref = build(base, 1.0, sg, fld, lname)
                for k in (-7, 3):
                    L = 2.0 ** k
                    got = build(scaled_mesh(spec, L), L, sg, fld, lname)
                    res["evals"] += 1
                    res["nontrivial"] += 1
                    for name in ref:
                        if name == "gradientTerm":
                            ok = all(np.array_equal(g_ * (L if kinds[ax] in ("lin", "rad") else L), r_) or
                                     np.allclose(g_ * L, r_, rtol=4 * EPS, atol=0) for ax, (g_, r_) in enumerate(zip(got[name], ref[name])))
                        else:
                            a_, b_ = got[name], ref[name]
                            ok = a_.shape == b_.shape and np.all(np.abs(a_ - b_) <= 4 * EPS * np.maximum(np.abs(a_), np.abs(b_)))
                        if not ok:
                            key = "C17:opunits:%s:%s" % (name, cls)
                            if key not in seen:
                                seen.add(key)
                                F.append({"key": key, "msg": "%s on %s: in length units of 2^%d (D x L^2, u x L, flow directions %s, limiter %s) the term is not the one "
                                                             "of the original units" % (name, gid, k, list(sg), lname), "detail": {"grid": gid, "L": L, "signs": list(sg)}})
    res["sample"] = {"grid": gid, "sign_patterns": 2 ** d}


def _units_part(case, res):
    spec = case["grid"]
    setup = case["setup"]
    F = res["findings"]
    seen = set()
    gid = U.spec_id(spec)
    d = U.dim(spec["cls"])
    inner = tuple(slice(1, -1) for _ in range(d))
    for ts in TERMSETS:
        for scheme in ("implicit", "explicit"):
            base, kap = run_config(spec, setup, ts, scheme, 1.0, 1.0, 1.0)
            if not np.all(np.isfinite(base[inner])) or not np.isfinite(kap):
                res["precond_failed"] = res.get("precond_failed", 0) + 1
                continue
            sc = max(float(np.max(np.abs(base[inner]))), 1e-300)
            for (L, T, K, exact) in triples(case.get("tier", "quick")) + (EXTREME if "T" not in ts else []):
                got, kap2 = run_config(spec, setup, ts, scheme, L, T, K)
                res["evals"] += 1
                res["nontrivial"] += 1 if sc > 0 else 0
                diff = float(np.max(np.abs(got[inner] - base[inner])))
                # decimal factors: two compared solutions, three sequential solves each
                tol = 4 * EPS * sc if exact else 64 * EPS * (max(kap, 1.0) + max(kap2, 1.0)) * sc * 3
                if not diff <= tol:
                    k = "C17:units:%s:%s:%s:%s" % (spec["cls"], "+".join(ts), scheme, "pow2" if exact else "decimal")
                    if k in seen:
                        continue
                    seen.add(k)
                    F.append({"key": k,
                              "msg": "%s (%s BCs), terms %s, 3 %s steps: rescaling lengths x%g, time x%g, field x%g changes the solution (after division by K) by %.3g (tolerance %.3g, max |phi| %.3g)"
                                     % (gid, setup, "+".join(ts), scheme, L, T, K, diff, tol, sc),
                              "detail": {"grid": gid, "setup": setup, "terms": list(ts), "scheme": scheme, "L": L, "T": T, "K": K}})
    res["sample"] = {"grid": gid, "setup": setup, "triples": len(triples(case.get("tier", "quick")))}


def _linear_part(case, res):
    g = Grid(case["grid"])
    F = res["findings"]
    seen = set()
    gid = U.spec_id(g.spec)
    updir = U.face_from_arrays(g.mesh, [np.where(np.indices(s).sum(axis=0) % 2 == 0, 1.0, -1.0) for s in g.face_shapes])
    builders = [("diffusionTerm", lambda f: dense(pf.diffusionTerm(f))),
                ("convectionTerm", lambda f: dense(pf.convectionTerm(f))),
                ("convectionUpwindTerm_fixed_direction", lambda f: dense(pf.convectionUpwindTerm(f, updir))),
                ("divergenceTerm", lambda f: np.asarray(pf.divergenceTerm(f), dtype=float))]

    def add(kind, name, msg):
        k = "C17:%s:%s:%s" % (kind, name, g.cls)
        if k not in seen:
            seen.add(k)
            F.append({"key": k, "msg": "%s on %s: %s" % (name, gid, msg), "detail": {"grid": gid}})
    for name, build in builders:
        unit = {}
        for (ax, idx) in g.faces:
            unit[(ax, idx)] = build(g.unit_face(ax, idx))
            res["evals"] += 1
            for lam in (2.0 ** -20, -4.0, 2.0 ** 20):
                res["evals"] += 1
                res["nontrivial"] += 1
                if not np.array_equal(build(g.unit_face(ax, idx, lam)), lam * unit[(ax, idx)]):
                    add("homogeneity", name, "T(%g*e_f) != %g*T(e_f) for the unit coefficient on face axis %d %s" % (lam, lam, ax, list(idx)))
        for (f1, f2) in itertools.combinations(g.faces, 2):
            fv = g.unit_face(*f1)
            getattr(fv, U.COMP[f2[0]])[f2[1]] = 1.0
            res["evals"] += 1
            res["nontrivial"] += 1
            got = build(fv)
            want = unit[f1] + unit[f2]
            if not np.all(np.abs(got - want) <= 8 * EPS * (np.abs(unit[f1]) + np.abs(unit[f2]))):
                add("additivity", name, "T(e_f+e_g) != T(e_f)+T(e_g) for faces %s and %s" % (list(f1), list(f2)))
    # TVD correction: linear in u at fixed upwind direction (4th argument), for a generic field
    phi = g.cell(U.generic_array(g.fshape, tag=525, signed=True))
    u1 = U.generic_face(g.mesh, tag=527, signed=True)
    u2 = U.generic_face(g.mesh, tag=529, signed=True)
    for lname in ("Koren", "SUPERBEE"):
        FL = pf.fluxLimiter(lname)
        T1 = np.asarray(pf.convectionTVDupwindRHSTerm(u1, phi, FL, updir), dtype=float)
        T2 = np.asarray(pf.convectionTVDupwindRHSTerm(u2, phi, FL, updir), dtype=float)
        T12 = np.asarray(pf.convectionTVDupwindRHSTerm(u1 + u2, phi, FL, updir), dtype=float)
        Tm = np.asarray(pf.convectionTVDupwindRHSTerm(u1 * (-4.0), phi, FL, updir), dtype=float)
        res["evals"] += 4
        res["nontrivial"] += 2
        sc = np.abs(T1) + np.abs(T2) + 1e-300
        if not np.all(np.abs(T12 - (T1 + T2)) <= 1e-11 * np.max(sc)):
            add("additivity", "convectionTVDupwindRHSTerm_fixed_direction", "TVD(u1+u2) != TVD(u1)+TVD(u2) at fixed upwind direction (%s)" % lname)
        if not np.all(np.abs(Tm - (-4.0) * T1) <= 1e-11 * np.max(sc)):
            add("homogeneity", "convectionTVDupwindRHSTerm_fixed_direction", "TVD(-4u) != -4 TVD(u) at fixed upwind direction (%s)" % lname)
    # source terms: linear in beta / gamma
    for name, build in (("linearSourceTerm", lambda c: dense(pf.linearSourceTerm(c))),
                        ("constantSourceTerm", lambda c: np.asarray(pf.constantSourceTerm(c), dtype=float))):
        b1 = U.generic_array(g.dims, tag=521, signed=True)
        b2 = U.generic_array(g.dims, tag=523, signed=True)
        T1, T2 = build(pf.CellVariable(g.mesh, b1)), build(pf.CellVariable(g.mesh, b2))
        T12 = build(pf.CellVariable(g.mesh, b1 + b2))
        T4 = build(pf.CellVariable(g.mesh, 2.0 ** 20 * b1))
        res["evals"] += 4
        res["nontrivial"] += 2
        if not np.array_equal(T12, T1 + T2):
            add("additivity", name, "term of summed coefficient fields is not the sum of the terms")
        if not np.array_equal(T4, 2.0 ** 20 * T1):
            add("homogeneity", name, "scaling the coefficient by 2^20 does not scale the term")
    res["sample"] = {"grid": gid, "faces": len(g.faces)}


def run_case(case):
    res = {"evals": 0, "nontrivial": 0, "findings": [], "outcomes": {}}
    if case["part"] == "units":
        _units_part(case, res)
    elif case["part"] == "opunits":
        _opunits_part(case, res)
    else:
        _linear_part(case, res)
    res["outcomes"] = {"%s:%s" % (case["part"], "ok" if not res["findings"] else "viol"): 1}
    return res
