"""C04 - solvePDE solves exactly the system its term list and BCs define, in place.

Programs (term lists), not inputs, are the quantifier: all term lists up to length 3
(thorough: 4) over an alphabet of 16 term kinds (matrix / vector / (matrix, vector) pairs,
negated, scaled, plain tuple, SignedTuple) in every order, on 9 classes x 2 shapes x 3 BC
set-ups.  Oracle: independently accumulated dense system; (i) returns its argument,
(ii) residual on interior and boundary rows, (iii) == solveMatrixPDE of the hand-assembled
system, (iv) order independence, (v) ghost rows of every builder are exactly zero,
(vi) superposition in sources, boundary data and previous values, (vii) an external solver
receives the identical system and its answer ends up in the variable, (viii) all sequences of three
solves on one variable over an alphabet of nearly equal / rescaled / structurally different systems.
"""
import itertools

import numpy as np
import scipy.sparse as sp
from scipy.sparse.linalg import spsolve

from ..env import pf, EPS
from .. import universe as U
from ..opkit import Grid, dense
from .c15 import fingerprint

ID = "C04"
LEVEL = "model_checking"
RULE = ("programs = all ordered term lists of length <= L over the 16-kind alphabet (plus one mandatory well-conditioned "
        "base term) x class x shape x BC set-up; every program is executed with a spy solver; one program = one distinct "
        "non-trivial case; ghost-row and superposition parts run on the full basis")
ASSUMPTIONS = ["programs whose assembled matrix has cond*eps > 1e-6 (e.g. negative diffusion cancelling the base term) are "
               "counted as preconditions_failed", "tolerance 64*eps*cond(M)*max|phi| for solution comparisons"]
ALPHABET = ["Md", "nMd", "2Mc", "Mu", "Ls2", "v", "nv", "tvd", "pair", "tuple", "ST", "nST", "pST", "Mu0", "MuL", "MdL"]
SHAPES = {1: [(3,), (1,)], 2: [(2, 3), (1, 2)], 3: [(2, 1, 2), (2, 2, 2)]}


def bounds(tier):
    return {"program_length": 3 if tier == "quick" else 4, "alphabet": ALPHABET, "bc_setups": ["noflux", "robin", "periodic+dirichlet"],
            "solve_sequences": {"length": 3, "systems": SYSTEMS}, "ghost_row_grids": U.grid_bounds(tier)}


def cases(tier):
    out = []
    L = 3 if tier == "quick" else 4
    for cls in U.CLASSES:
        d = U.dim(cls)
        for si, shape in enumerate(SHAPES[d]):
            for setup in ("noflux", "robin", "periodic"):
                sp = ["I"] * d
                if setup == "periodic":
                    # equal end cells on the periodic axis (unequal ends are C03's recorded finding)
                    pax = U.periodic_axis(cls, shape, 1)
                    if pax is not None:
                        sp[pax] = "U"
                s = U.spec(cls, shape, tuple(sp), 1)
                for first in ALPHABET + ["-"]:
                    if L == 4 and first != "-":
                        for second in ALPHABET:
                            out.append({"grid": s, "setup": setup, "part": "programs", "first": [first, second], "L": L})
                    else:
                        out.append({"grid": s, "setup": setup, "part": "programs", "first": [first] if first != "-" else [], "L": L})
                out.append({"grid": s, "setup": setup, "part": "superposition"})
                out.append({"grid": s, "setup": setup, "part": "resolve"})
                out.append({"grid": s, "setup": setup, "part": "sequences"})
    for s in U.grid_specs(tier):
        out.append({"grid": s, "part": "ghostrows"})
    return out


def weight(case):
    n = int(np.prod([k + 2 for k in case["grid"]["shape"]]))
    return n * {"programs": 150, "superposition": 60, "ghostrows": 1, "resolve": 10, "sequences": 120}[case["part"]]


def make_bc(g, setup):
    from .c14 import make_bc as mk
    return mk(g.mesh, g.cls, setup, 5)


class Env:
    def __init__(self, g, setup):
        self.g = g
        m = g.mesh
        self.D = U.generic_face(m, tag=301)
        self.u = U.generic_face(m, tag=303, signed=True)
        self.beta = pf.CellVariable(m, 64.0 + U.generic_array(g.dims, tag=305))
        self.beta2 = pf.CellVariable(m, U.generic_array(g.dims, tag=307) / 4.0)
        self.gamma = pf.CellVariable(m, U.generic_array(g.dims, tag=309, signed=True))
        self.old = pf.CellVariable(m, U.generic_array(g.dims, tag=311, signed=True), make_bc(g, setup))
        self.FL = pf.fluxLimiter("Koren")
        self.setup = setup

    def term(self, kind):
        ST = pf.utilities.SignedTuple
        if kind == "base":
            return pf.linearSourceTerm(self.beta)
        if kind == "Md":
            return -pf.diffusionTerm(self.D)
        if kind == "nMd":
            return pf.diffusionTerm(self.D)
        if kind == "2Mc":
            return 2.0 * pf.convectionTerm(self.u)
        if kind == "Mu":
            return pf.convectionUpwindTerm(self.u)
        if kind == "Ls2":
            return pf.linearSourceTerm(self.beta2)
        if kind == "v":
            return pf.constantSourceTerm(self.gamma)
        if kind == "nv":
            return -pf.constantSourceTerm(self.gamma)
        if kind == "tvd":
            return pf.convectionTVDupwindRHSTerm(self.u, self.old, self.FL)
        if kind == "pair":
            return pf.transientTerm(self.old, 0.25, 1.5)
        if kind == "tuple":
            return (pf.linearSourceTerm(self.beta2), pf.constantSourceTerm(self.gamma))
        if kind == "ST":
            return ST((pf.convectionUpwindTerm(self.u), pf.constantSourceTerm(self.gamma)))
        if kind == "nST":
            return -ST((pf.diffusionTerm(self.D), pf.constantSourceTerm(self.gamma)))
        if kind in ("Mu0", "MuL", "MdL"):
            # coefficient fields that vanish on all but one axis: matrices with other sparsity patterns (a velocity
            # along the first axis only / along the last axis only and negative; diffusion along the last axis only)
            d = self.g.d
            keep = 0 if kind == "Mu0" else d - 1
            src = self.D if kind == "MdL" else self.u
            arrs = [np.abs(a) * (-1.0 if kind == "MuL" else 1.0) if ax == keep else np.zeros_like(a) for ax, a in enumerate(self.g.face_arrays(src))]
            f = U.face_from_arrays(self.g.mesh, arrs)
            return -pf.diffusionTerm(f) if kind == "MdL" else pf.convectionUpwindTerm(f)
        if kind == "pST":
            return +ST((pf.linearSourceTerm(self.beta2), -pf.constantSourceTerm(self.gamma)))
        raise KeyError(kind)


def assemble(Mbc, rbc, terms):
    """Reference accumulation (dense, same order)."""
    M = dense(Mbc).copy()
    r = np.array(rbc, dtype=float).copy()
    for t in terms:
        if isinstance(t, tuple):
            M = M + dense(t[0])
            r = r + np.asarray(t[1], dtype=float)
        elif getattr(t, "ndim", None) == 1:
            r = r + np.asarray(t, dtype=float)
        else:
            M = M + dense(t)
    return M, r


class Spy:
    def __init__(self):
        self.calls = []

    def __call__(self, M, rhs):
        self.calls.append((dense(M).copy(), np.array(rhs, dtype=float).copy()))
        self.answer = spsolve(sp.csr_array(M), rhs)
        return self.answer


def _programs_part(g, case, res):
    F = res["findings"]
    seen = set()
    setup = case["setup"]
    L = case["L"]
    first = case["first"]
    env = Env(g, setup)
    rest_len = L - len(first)
    progs = []
    for k in range(0, rest_len + 1):
        if not first and k > 0:
            continue        # the empty-prefix case covers only the base-only program
        for tail in itertools.product(ALPHABET, repeat=k):
            progs.append(list(first) + list(tail))
    canon = {}
    # a program in which a kind occurs more than once is run twice: with separately built term objects, and with one
    # and the same object at every occurrence (the user passes a term twice)
    progs = [(p_, False) for p_ in progs] + [(p_, True) for p_ in progs if len(set(p_)) < len(p_)]
    for prog, same_object in progs:
        # the mandatory base term is inserted at a position that varies with the program
        pos = (len(prog) + sum(map(len, prog))) % (len(prog) + 1)
        kinds = prog[:pos] + ["base"] + prog[pos:]
        phi = pf.CellVariable(g.mesh, U.generic_array(g.dims, tag=313, signed=True), make_bc(g, setup))
        # what the variable holds before the call is immaterial (no term of these programs is built from it): placeholders
        # such as NaN, inf or 1e30 ("not computed yet") must not leak into the stored solution
        prior = (None, np.nan, np.inf, -1e30)[(len(prog) + sum(map(len, prog))) % 4] if not same_object else None
        if prior is not None:
            phi.value = prior
        if same_object:
            built = {}
            terms = [built.setdefault(k, env.term(k)) if k in built or kinds.count(k) > 1 else env.term(k) for k in kinds]
        else:
            terms = [env.term(k) for k in kinds]
        Mbc, rbc = pf.boundaryConditionsTerm(phi.BCs)
        Mref, rref = assemble(Mbc, rbc, terms)
        kappa = float(np.linalg.cond(Mref, np.inf)) if np.all(np.isfinite(Mref)) else np.inf
        res["evals"] += 1
        if not np.isfinite(kappa) or kappa * EPS > 1e-6:
            res["precond_failed"] = res.get("precond_failed", 0) + 1
            continue
        res["nontrivial"] += 1
        spy = Spy()
        ids_before = [id(t) for t in terms]
        fp_before = fingerprint(terms)
        ret = pf.solvePDE(phi, terms, externalsolver=spy)

        def add(kind, msg):
            k = "C04:%s:%s" % (kind, g.cls)
            if k not in seen:
                seen.add(k)
                F.append({"key": k, "msg": "program %s%s on %s (%s BCs): %s" % (kinds, " (repeated kinds are one object)" if same_object else "", U.spec_id(g.spec), setup, msg),
                          "detail": {"grid": U.spec_id(g.spec), "program": kinds, "setup": setup}})
        if ret is not phi:
            add("returns_other_object", "solvePDE did not return the variable it was given")
        if fingerprint(terms) != fp_before:
            add("terms_modified", "solvePDE changed the arrays of the terms it was given (they can no longer be reused in the next step)")
        if [id(t) for t in terms] != ids_before:
            add("term_list_modified", "solvePDE changed the term list it was given (length %d -> %d)" % (len(ids_before), len(terms)))
        full = np.asarray(phi._value, dtype=float).ravel()
        scale = max(1.0, float(np.max(np.abs(full))))
        # (vii) spy: identical system, answer stored
        if len(spy.calls) != 1:
            add("external_solver_calls", "external solver called %d times" % len(spy.calls))
        else:
            Ms, rs = spy.calls[0]
            if not (np.all(np.abs(Ms - Mref) <= 8 * EPS * (np.abs(Mref) + np.abs(Ms))) and
                    np.all(np.abs(rs - rref) <= 8 * EPS * (np.abs(rref) + np.abs(rs)))):
                i = np.argwhere(~(np.abs(Ms - Mref) <= 8 * EPS * (np.abs(Mref) + np.abs(Ms))))
                add("system_differs", "the system handed to the solver differs from the hand-assembled sum of terms%s"
                    % (" at entry %s: %.6g vs %.6g" % (i[0].tolist(), Ms[tuple(i[0])], Mref[tuple(i[0])]) if len(i) else " (right-hand side)"))
            inner = g.imask
            if not np.array_equal(full[inner], np.asarray(spy.answer, dtype=float)[inner]):
                add("solver_answer_not_stored", "interior values are not the external solver's answer")
        # (ii) residual on all non-corner rows
        r = Mref @ full - rref
        sc = np.abs(Mref) @ np.abs(full) + np.abs(rref)
        rows = [j for j in range(g.n) if sum(1 for a in range(g.d) if g.cell_of_flat(j)[a] in (0, g.dims[a] + 1)) <= 1]
        scmax = float(np.max(sc))       # normwise backward-error bound of the sparse LU
        bad = [j for j in rows if not abs(r[j]) <= 64 * EPS * kappa * scmax + 1e-300]
        if bad:
            j = bad[0]
            add("residual_%s" % ("interior" if g.imask[j] else "boundary"),
                "row %s of the assembled system has residual %.3g (scale %.3g, cond %.3g)" % (list(g.cell_of_flat(j)), r[j], sc[j], kappa))
        # (iii) solveMatrixPDE of the hand-assembled system
        ref = pf.solveMatrixPDE(g.mesh, sp.csr_array(Mref), rref)
        spy2 = Spy()
        ref2 = pf.solveMatrixPDE(g.mesh, sp.csr_array(Mref), rref, externalsolver=spy2)
        if len(spy2.calls) != 1 or not np.array_equal(spy2.calls[0][0], Mref) or not np.array_equal(spy2.calls[0][1], rref) \
                or not np.array_equal(np.asarray(ref2._value).ravel(), np.asarray(spy2.answer)):
            add("solveMatrixPDE_external_solver", "solveMatrixPDE does not hand the given system to the external solver / does not return its answer")
        if not np.all(np.abs(np.asarray(ref.value) - np.asarray(phi.value)) <= 64 * EPS * kappa * scale):
            add("differs_from_solveMatrixPDE", "interior differs from solveMatrixPDE of the hand-assembled system by %.3g"
                % float(np.max(np.abs(np.asarray(ref.value) - np.asarray(phi.value)))))
        # (iv) order independence: compare with the first program seen for the same multiset
        key = tuple(sorted(kinds))
        val = np.asarray(phi.value, dtype=float).copy()
        if key in canon:
            v0, k0, kap0 = canon[key]
            if not np.all(np.abs(val - v0) <= 64 * EPS * max(kappa, kap0) * scale):
                add("order_dependence", "result differs from the same terms in order %s by %.3g" % (k0, float(np.max(np.abs(val - v0)))))
        else:
            canon[key] = (val, kinds, kappa)
    res["sample"] = {"grid": U.spec_id(g.spec), "setup": setup, "programs": len(progs), "example": progs[len(progs) // 2][0]}


def _superposition_part(g, case, res):
    F = res["findings"]
    setup = case["setup"]
    D = U.generic_face(g.mesh, tag=321)
    u = U.generic_face(g.mesh, tag=323, signed=True)
    beta = pf.CellVariable(g.mesh, 4.0 + U.generic_array(g.dims, tag=325))
    Mfix = [-pf.diffusionTerm(D), pf.convectionUpwindTerm(u), pf.linearSourceTerm(beta)]

    def solve(gam, cvals, old):
        bc = make_bc(g, setup)
        k = 0
        for ax in range(g.d):
            for side in U.SIDES[ax]:
                bf = getattr(bc, side)
                n = int(np.asarray(bf._c).size)
                bf.c = np.asarray(cvals[k:k + n], dtype=float).reshape(np.asarray(bf._c).shape)
                k += n
        phi = pf.CellVariable(g.mesh, 0.0, bc)
        oldv = pf.CellVariable(g.mesh, old)
        pf.solvePDE(phi, Mfix + [pf.constantSourceTerm(pf.CellVariable(g.mesh, gam)), pf.transientTerm(oldv, 0.5, 2.0)])
        return np.asarray(phi.value, dtype=float).copy()
    ncell = int(np.prod(g.dims))
    bc0 = make_bc(g, setup)
    nc = sum(int(np.asarray(getattr(bc0, s)._c).size) for ax in range(g.d) for s in U.SIDES[ax])
    z = np.zeros(g.dims)
    zc = np.zeros(nc)
    S0 = solve(z, zc, z)
    res["evals"] += 1
    if np.any(S0 != 0):
        F.append({"key": "C04:superposition:zero_data:%s" % g.cls, "msg": "zero sources, zero boundary data and zero previous values give a non-zero solution on %s" % U.spec_id(g.spec), "detail": {}})
    Sg, Sc, So = [], [], []
    for j in range(ncell):
        e = np.zeros(g.dims)
        e.flat[j] = 1.0
        Sg.append(solve(e, zc, z))
        So.append(solve(z, zc, e))
        res["evals"] += 2
    for j in range(nc):
        e = np.zeros(nc)
        e[j] = 1.0
        Sc.append(solve(z, e, z))
        res["evals"] += 1
    for tag in (331, 333):
        gam = U.generic_array(g.dims, tag=tag, signed=True)
        cv = U.generic_array((nc,), tag=tag + 1, signed=True)
        old = U.generic_array(g.dims, tag=tag + 2, signed=True)
        got = solve(gam, cv, old)
        want = sum(gam.flat[j] * Sg[j] for j in range(ncell)) + sum(old.flat[j] * So[j] for j in range(ncell)) + \
            sum(cv[j] * Sc[j] for j in range(nc))
        res["evals"] += 1
        res["nontrivial"] += 1
        sc = sum(abs(gam.flat[j]) * np.abs(Sg[j]) for j in range(ncell)) + sum(abs(old.flat[j]) * np.abs(So[j]) for j in range(ncell)) + \
            sum(abs(cv[j]) * np.abs(Sc[j]) for j in range(nc))
        if not np.all(np.abs(got - want) <= 1e-9 * (sc + 1.0)):
            F.append({"key": "C04:superposition:%s" % g.cls,
                      "msg": "solution on %s (%s BCs) is not the superposition of the unit-source, unit-boundary-datum and unit-previous-value solutions (max deviation %.3g)"
                             % (U.spec_id(g.spec), setup, float(np.max(np.abs(got - want)))), "detail": {}})
            break


def _resolve_part(g, case, res):
    """Repeated solves on one variable with boundary-condition edits in between, for the three
    ways a variable comes into being (pre-calculated BC term, BCsTerm_precalc=False, result of
    solveExplicitPDE): every solve must hand the solver the system assembled from the *current* BCs."""
    F = res["findings"]
    setup = case["setup"]
    env = Env(g, setup)
    seen = set()
    for kind in ("precalc", "noprecalc", "explicit_result", "sharing"):
        other = None
        if kind == "sharing":
            # a second variable shares the BC object and refreshes first after every edit; this variable is then
            # refreshed explicitly (apply_BCs) before it is solved: it must be handed the current boundary equations
            phi = pf.CellVariable(g.mesh, U.generic_array(g.dims, tag=351, signed=True), make_bc(g, setup))
            other = pf.CellVariable(g.mesh, U.generic_array(g.dims, tag=355, signed=True), phi.BCs)
        elif kind == "precalc":
            phi = pf.CellVariable(g.mesh, U.generic_array(g.dims, tag=351, signed=True), make_bc(g, setup))
        elif kind == "noprecalc":
            phi = pf.CellVariable(g.mesh, U.generic_array(g.dims, tag=351, signed=True), make_bc(g, setup), BCsTerm_precalc=False)
        else:
            p0 = pf.CellVariable(g.mesh, U.generic_array(g.dims, tag=351, signed=True), make_bc(g, setup))
            phi = pf.solveExplicitPDE(p0, 0.125, U.generic_array(g.fshape, tag=353, signed=True).ravel())
        for rnd in range(3):
            if rnd:
                # edit the boundary data (and, in round 2, the coefficients) of every non-periodic side
                for ax in range(g.d):
                    for hi, side in enumerate(U.SIDES[ax]):
                        bf = getattr(phi.BCs, side)
                        if bf.periodic or not np.asarray(bf._c).size:
                            continue
                        bf.c = np.array(bf._c) * 1.5 + 0.25 * rnd
                        if rnd == 2:
                            bf.b = np.array(bf._b) + (4.0 if hi else -4.0)
            if other is not None:
                other.apply_BCs()
                phi.apply_BCs()
            terms = [env.term("base"), env.term("Md"), env.term("v"), pf.transientTerm(phi, 0.25, 1.0)]
            Mbc, rbc = pf.boundaryConditionsTerm(phi.BCs)
            Mref, rref = assemble(Mbc, rbc, terms)
            spy = Spy()
            pf.solvePDE(phi, terms, externalsolver=spy)
            res["evals"] += 1
            res["nontrivial"] += 1
            Ms, rs = spy.calls[0]
            if not (np.all(np.abs(Ms - Mref) <= 8 * EPS * (np.abs(Mref) + np.abs(Ms))) and
                    np.all(np.abs(rs - rref) <= 8 * EPS * (np.abs(rref) + np.abs(rs)))):
                k = "C04:resolve_system_differs:%s:round=%d" % (kind, rnd)
                if k not in seen:
                    seen.add(k)
                    F.append({"key": k,
                              "msg": "solve #%d on a %s variable on %s (%s BCs) after editing its boundary conditions: the system handed to the solver is not the one assembled from the current BCs and terms"
                                     % (rnd + 1, kind, U.spec_id(g.spec), setup),
                              "detail": {"grid": U.spec_id(g.spec), "kind": kind, "round": rnd, "setup": setup}})


SYSTEMS = ["base", "ppm", "x3", "tiny", "tiny_x3", "src", "conv"]


def _sequences_part(g, case, res):
    """All sequences of three solvePDE calls on ONE variable (built-in solver) over an alphabet of systems
    that differ from each other by a few ppm, by a factor, only in the sources, in sparsity, or are
    expressed in units in which every coefficient is ~1e-9.  After every call the stored values must
    solve the system assembled from that call's terms and the current BCs (dense reference solve)."""
    F = res["findings"]
    setup = case["setup"]
    env = Env(g, setup)
    m = g.mesh
    arrD = g.face_arrays(env.D)
    tiny = 2.0 ** -30

    def terms_of(name):
        k = {"base": 1.0, "ppm": 1.0 + 2.0 ** -18, "x3": 3.0, "tiny": tiny, "tiny_x3": 3.0 * tiny, "src": 1.0, "conv": 1.0}[name]
        t = k if name in ("tiny", "tiny_x3") else 1.0          # tiny*: the whole equation in other units
        D = U.face_from_arrays(m, [a * k for a in arrD])
        out = [-pf.diffusionTerm(D), t * pf.linearSourceTerm(env.beta), t * pf.constantSourceTerm(env.gamma)]
        if name == "src":
            out.append(2.0 * pf.constantSourceTerm(env.gamma))
        if name == "conv":
            out.append(pf.convectionUpwindTerm(env.u))
        return out

    seen = set()
    for seq in itertools.product(SYSTEMS, repeat=3):
        phi = pf.CellVariable(m, U.generic_array(g.dims, tag=361, signed=True), make_bc(g, setup))
        for si, name in enumerate(seq):
            terms = terms_of(name)
            Mbc, rbc = pf.boundaryConditionsTerm(phi.BCs)
            Mref, rref = assemble(Mbc, rbc, terms)
            rs = np.max(np.abs(Mref), axis=1)
            rs[rs == 0] = 1.0
            Meq = Mref / rs[:, None]
            kap = float(np.linalg.cond(Meq, np.inf)) if np.all(np.isfinite(Meq)) else np.inf
            if not np.isfinite(kap) or kap * EPS > 1e-6:
                res["precond_failed"] = res.get("precond_failed", 0) + 1
                break
            want = np.linalg.solve(Meq, rref / rs)
            fp_before = fingerprint(terms)
            ret = pf.solvePDE(phi, terms)
            if fingerprint(terms) != fp_before:
                k = "C04:sequence_terms_modified:%s" % g.cls
                if k not in seen:
                    seen.add(k)
                    F.append({"key": k, "msg": "solvePDE (built-in solver) changed the arrays of the terms it was given on %s" % U.spec_id(g.spec), "detail": {}})
            res["evals"] += 1
            res["nontrivial"] += 1
            got = np.asarray(phi._value, dtype=float).ravel()
            live = g.imask | (np.abs(Mref).sum(axis=1) > 0)      # corner ghosts are not part of the system
            err = float(np.max(np.abs(got - want)[live]))
            tol = 64 * EPS * kap * max(1.0, float(np.max(np.abs(want[live]))))
            if ret is not phi or not err <= tol:
                k = "C04:sequence:%s:%s" % ("->".join(seq[max(0, si - 1):si + 1]) if si else seq[0], g.cls)
                if k not in seen:
                    seen.add(k)
                    F.append({"key": k, "msg": "solve #%d of the sequence %s on one variable on %s (%s BCs): stored values differ from the solution of "
                                               "the system assembled from this call's terms by %.3g (tolerance %.3g)"
                                               % (si + 1, list(seq), U.spec_id(g.spec), setup, err, tol),
                              "detail": {"grid": U.spec_id(g.spec), "sequence": list(seq), "setup": setup}})
                break
    res["sample"] = {"grid": U.spec_id(g.spec), "sequences": len(SYSTEMS) ** 3}


def _ghostrows_part(g, res):
    F = res["findings"]
    ghost = ~g.imask
    D = U.generic_face(g.mesh, tag=341)
    u = U.generic_face(g.mesh, tag=343, signed=True)
    phi = g.cell(U.generic_array(g.fshape, tag=345, signed=True))
    beta = pf.CellVariable(g.mesh, U.generic_array(g.dims, tag=347))
    tt = pf.transientTerm(phi, 0.5, beta)
    items = {
        "diffusionTerm": pf.diffusionTerm(D), "convectionTerm": pf.convectionTerm(u),
        "convectionUpwindTerm": pf.convectionUpwindTerm(u), "linearSourceTerm": pf.linearSourceTerm(beta),
        "constantSourceTerm": pf.constantSourceTerm(beta), "transientTerm[M]": tt[0], "transientTerm[v]": tt[1],
        "convectionTVDupwindRHSTerm": pf.convectionTVDupwindRHSTerm(u, phi, pf.fluxLimiter("SUPERBEE")),
        "divergenceTerm": pf.divergenceTerm(u),
    }
    for nm, t in items.items():
        res["evals"] += 1
        res["nontrivial"] += 1
        if getattr(t, "ndim", 0) == 2:
            M = dense(t)
            ok = M.shape == (g.n, g.n) and np.all(M[ghost] == 0)
        else:
            v = np.asarray(t)
            ok = v.shape == (g.n,) and np.all(v[ghost] == 0)
        if not ok:
            F.append({"key": "C04:ghost_rows:%s:%s" % (nm, g.cls),
                      "msg": "%s on %s contributes to ghost-cell (boundary) equations or has the wrong size" % (nm, U.spec_id(g.spec)), "detail": {}})


def run_case(case):
    g = Grid(case["grid"])
    res = {"evals": 0, "nontrivial": 0, "findings": [], "outcomes": {}}
    part = case["part"]
    if part == "programs":
        _programs_part(g, case, res)
    elif part == "superposition":
        _superposition_part(g, case, res)
    elif part == "resolve":
        _resolve_part(g, case, res)
    elif part == "sequences":
        _sequences_part(g, case, res)
    else:
        _ghostrows_part(g, res)
    res["outcomes"] = {"%s:%s" % (part, "ok" if not res["findings"] else "viol"): 1}
    res.setdefault("sample", {"grid": U.spec_id(g.spec), "part": part})
    return res
