"""Label tables shared by C10 and C16 (docs/user_guide/meshes.md)."""
import numpy as np

from ..env import pf
from .. import universe as U

COORD_LABELS = ["x", "y", "z", "r", "theta", "phi"]
COMP_LABELS = ["xvalue", "yvalue", "zvalue", "rvalue", "thetavalue", "phivalue"]
INTERNAL = ["_x", "_y", "_z"]


def doc_table(cls):
    """label -> internal axis index, from the two tables in meshes.md."""
    return {lab: i for i, lab in enumerate(U.LABELS[cls])}


def check_mesh_labels(cls, res, prop):
    d = U.dim(cls)
    mesh = U.make_mesh(U.spec(cls, (2,) * d if d < 3 else (2, 1, 2), ("I",) * d, 1))
    tab = doc_table(cls)
    for holder in ("cellsize", "cellcenters", "facecenters"):
        obj = getattr(mesh, holder)
        for lab in COORD_LABELS:
            res["evals"] += 1
            res["nontrivial"] += 1
            try:
                v = getattr(obj, lab)
                exc = None
            except Exception as e:  # noqa: BLE001
                v, exc = None, e
            if lab in tab:
                want = getattr(obj, INTERNAL[tab[lab]])
                if exc is not None or v is not want and not np.array_equal(v, want):
                    res["findings"].append({"key": "%s:label_get:%s:%s.%s" % (prop, cls, holder, lab),
                                            "msg": "%s.%s.%s should return the %s array, got %r"
                                                   % (cls, holder, lab, INTERNAL[tab[lab]], exc or "different array"),
                                            "detail": {}})
            else:
                if not isinstance(exc, AttributeError):
                    res["findings"].append({"key": "%s:label_foreign:%s:%s.%s" % (prop, cls, holder, lab),
                                            "msg": "%s.%s.%s is foreign to the coordinate system and must raise AttributeError, got %s"
                                                   % (cls, holder, lab, type(exc).__name__ if exc else "a value"),
                                            "detail": {}})


def check_face_labels(cls, res, prop):
    d = U.dim(cls)
    mesh = U.make_mesh(U.spec(cls, (2,) * d if d < 3 else (2, 1, 2), ("I",) * d, 1))
    tab = {lab + "value": i for lab, i in doc_table(cls).items()}
    comps = ["_xvalue", "_yvalue", "_zvalue"]
    for lab in COMP_LABELS:
        # ---- get
        fv = U.generic_face(mesh, tag=2)
        before = [np.array(getattr(fv, c)) for c in comps]
        res["evals"] += 2
        res["nontrivial"] += 2
        try:
            v = getattr(fv, lab)
            exc = None
        except Exception as e:  # noqa: BLE001
            v, exc = None, e
        if lab in tab:
            if exc is not None or v is not getattr(fv, comps[tab[lab]]):
                res["findings"].append({"key": "%s:comp_get:%s:%s" % (prop, cls, lab),
                                        "msg": "FaceVariable.%s on %s should return component %s, got %r"
                                               % (lab, cls, comps[tab[lab]], exc or "another object"), "detail": {}})
        elif not isinstance(exc, AttributeError):
            res["findings"].append({"key": "%s:comp_get_foreign:%s:%s" % (prop, cls, lab),
                                    "msg": "reading FaceVariable.%s on %s must raise AttributeError, got %s"
                                           % (lab, cls, type(exc).__name__ if exc else "a value"), "detail": {}})
        # ---- set
        fv = U.generic_face(mesh, tag=2)
        before = [getattr(fv, c) for c in comps]
        marker = None
        try:
            if lab in tab:
                marker = np.array(before[tab[lab]]) * 2.0 + 1.0
            else:
                marker = np.array(before[0]) * 2.0 + 1.0
            setattr(fv, lab, marker)
            exc = None
        except Exception as e:  # noqa: BLE001
            exc = e
        after = [getattr(fv, c) for c in comps]
        if lab in tab:
            ok = exc is None and after[tab[lab]] is marker and all(
                after[i] is before[i] for i in range(3) if i != tab[lab])
            if not ok:
                res["findings"].append({"key": "%s:comp_set:%s:%s" % (prop, cls, lab),
                                        "msg": "assigning FaceVariable.%s on %s must replace exactly component %s (%r)"
                                               % (lab, cls, comps[tab[lab]], exc), "detail": {}})
        else:
            changed = any(after[i] is not before[i] for i in range(3))
            if not isinstance(exc, AttributeError) or changed:
                res["findings"].append({"key": "%s:comp_set_foreign:%s:%s" % (prop, cls, lab),
                                        "msg": "assigning FaceVariable.%s on %s must raise AttributeError and change nothing; got %s%s"
                                               % (lab, cls, type(exc).__name__ if exc else "no exception",
                                                  " and a component was overwritten" if changed else ""),
                                        "detail": {}})
