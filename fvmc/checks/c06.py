"""C06 - uniform fields stay uniform: constants are diffusion-free and advect as c*div(u).

(a) engine A: diffusionTerm(e_f)*1 == 0 for every unit face field; T(u)*c == c*divergenceTerm(u)
    for T in {central, upwind}, u = +-e_f and generic u; TVD(u, const, FL) == 0 for all limiters.
(b) engine B: for every element of a basis of the discretely solenoidal velocity fields
    (1-D: q/A_f; 2-D/3-D: discrete curl of every unit nodal/edge stream function) a uniform
    field with matching Dirichlet (or no-flux / periodic) boundary values is a fixed point of
    solvePDE for every dt of the alphabet, alpha scalar or per cell, upwind and central.
(c) [linearSourceTerm(beta), constantSourceTerm(gamma)] alone gives phi = gamma/beta per cell.
"""
import itertools

import numpy as np

from ..env import pf, EPS
from .. import universe as U
from ..opkit import Grid, dense, cmp_tol

ID = "C06"
LEVEL = "model_checking"
RULE = ("cases = grid instance x part; (a) every unit face field x sign; (b) every unit stream function (node/edge) x "
        "dt alphabet x alpha kind x {upwind, central} x boundary set-up; (c) all cells with distinct beta, gamma; "
        "non-trivial: the operator/velocity is non-zero on at least one interior row")
ASSUMPTIONS = ["face areas of the solenoidal construction are the mid-point areas the library's own divergenceTerm implies; "
               "divergenceTerm(u)==0 is asserted for every constructed field (else counted as preconditions_failed)",
               "solver-level tolerance 64*eps*cond(M)*|c|; cond*eps > 1e-4 counted as preconditions_failed"]
LIMITERS = ['CHARM', 'HCUS', 'HQUICK', 'ospre', 'VanLeer', 'VanAlbada1', 'VanAlbada2', 'MinMod',
            'SUPERBEE', 'Sweby', 'Osher', 'Koren', 'smart', 'MUSCL', 'QUICK', 'UMIST']
DT = {"quick": [2.0 ** -20, 2.0 ** -3, 1.0, 2.0 ** 10, 2.0 ** 40],
      "thorough": [2.0 ** k for k in (-40, -20, -10, -3, 0, 3, 10, 20, 40)]}
FP_SHAPES = {1: [(1,), (3,)], 2: [(2, 3), (3, 2), (1, 2)], 3: [(2, 2, 3), (3, 2, 2), (1, 2, 2)]}


def bounds(tier):
    return {"grids": U.grid_bounds(tier), "dt": [str(x) for x in DT[tier]],
            "fixed_point_shapes": "reduced" if tier == "quick" else "all of the quick shape set"}


def cases(tier):
    out = []
    for s in U.grid_specs(tier):
        out.append({"grid": s, "part": "const"})
        out.append({"grid": s, "part": "source"})
    for s in U.big_specs():
        out.append({"grid": s, "part": "const_big"})
        out.append({"grid": s, "part": "source"})
    templates = ["U", "I"] if tier == "quick" else ["U", "G", "I"]
    for cls in U.CLASSES:
        d = U.dim(cls)
        shp = FP_SHAPES[d] if tier == "quick" else U.shapes(d, "quick")
        for shape in shp:
            sps = [(t,) * d for t in templates] if tier == "quick" else list(itertools.product(templates, repeat=d))
            for sp in sps:
                for org in (0, 1):
                    for setup in ("dirichlet", "mixed"):
                        for adv in ("upwind", "central"):
                            out.append({"grid": U.spec(cls, shape, sp, org), "part": "fixedpoint", "tier": tier,
                                        "setup": setup, "adv": adv})
    return out


def weight(case):
    n = int(np.prod([k + 1 for k in case["grid"]["shape"]]))
    return n * (50 if case["part"] == "fixedpoint" else 1) * len(case["grid"]["shape"])


def _const_part(g, res, big=False):
    F = res["findings"]
    rows = np.flatnonzero(g.imask)
    ones = np.ones(g.n)
    seen = set()

    def report(kind, ax, idx, got, want, extra=""):
        k = "C06:%s:%s:axis=%d:%s" % (kind, g.cls, ax, "bface" if g.is_bface(ax, idx) else "iface")
        if k in seen:
            return
        seen.add(k)
        i = int(np.flatnonzero(cmp_tol(got, want))[0])
        F.append({"key": k, "msg": "%s on %s, unit coefficient on face axis %d %s%s: operator applied to the constant 1 gives %.6g in cell %s, expected %.6g"
                                   % (kind, U.spec_id(g.spec), ax, list(idx), extra, got[i], list(g.cell_of_flat(int(rows[i]))), want[i]),
                  "detail": {"grid": U.spec_id(g.spec), "face": [ax, list(idx)]}})
    if big:     # many cells: generic coefficient fields only
        Dm = pf.diffusionTerm(U.generic_face(g.mesh, tag=47))
        got = (Dm @ ones)[rows]
        sc = (abs(Dm) @ ones)[rows]
        res["evals"] += 1
        res["nontrivial"] += 1
        if np.any(np.abs(got) > 1e-12 * sc + 1e-300):
            F.append({"key": "C06:diffusion_of_constant:%s:big" % g.cls, "msg": "diffusionTerm on %s with a generic D applied to a constant field is %.6g (must vanish)"
                      % (U.spec_id(g.spec), float(np.max(np.abs(got)))), "detail": {}})
    for (ax, idx) in (g.faces if not big else []):
        Dm = dense(pf.diffusionTerm(g.unit_face(ax, idx)))
        res["evals"] += 1
        got = (Dm @ ones)[rows]
        sc = (np.abs(Dm) @ ones)[rows]
        res["nontrivial"] += int(np.any(sc > 0))
        if np.any(np.abs(got) > 1e-12 * sc + 1e-300):
            k = "C06:diffusion_of_constant:%s:axis=%d" % (g.cls, ax)
            if k not in seen:
                seen.add(k)
                F.append({"key": k, "msg": "diffusionTerm on %s with unit D on face axis %d %s applied to a constant field is %.6g (must vanish)"
                                           % (U.spec_id(g.spec), ax, list(idx), float(np.max(np.abs(got)))), "detail": {}})
        for s in (1.0, -1.0):
            u = g.unit_face(ax, idx, s)
            div = np.asarray(pf.divergenceTerm(u), dtype=float)[rows]
            for nm, T in (("central", pf.convectionTerm), ("upwind", pf.convectionUpwindTerm)):
                M = dense(T(u))
                res["evals"] += 1
                got = (M @ ones)[rows]
                res["nontrivial"] += int(np.any(div != 0))
                if cmp_tol(got, div).any():
                    report(nm + "_of_constant", ax, idx, got, div, " (u=%+g)" % s)
    # every combination of flow directions per axis (forward along one axis, backward or none along another)
    absu = g.face_arrays(U.generic_face(g.mesh, tag=49))
    for sg in U.axis_sign_patterns(g.d):
        if len(set(sg)) < 2:
            continue
        arrs = [s_ * a for s_, a in zip(sg, absu)]
        u = U.face_from_arrays(g.mesh, arrs)
        div = np.asarray(pf.divergenceTerm(u), dtype=float)[rows]
        for nm, T in (("central", pf.convectionTerm), ("upwind", pf.convectionUpwindTerm)):
            got = (T(u) @ ones)[rows]
            res["evals"] += 1
            res["nontrivial"] += 1
            if cmp_tol(got, div, rel=1e-11).any():
                k = "C06:%s_of_constant:%s:axis_directions" % (nm, g.cls)
                if k not in seen:
                    seen.add(k)
                    F.append({"key": k, "msg": "%s advection of the constant 1 on %s with flow directions %s per axis differs from divergenceTerm(u)" % (nm, U.spec_id(g.spec), list(sg)), "detail": {}})
        # with a separate upwind-direction field (another direction pattern, other magnitudes): a constant is advected as
        # c*div(u) whatever donor cells are chosen
        upd = U.face_from_arrays(g.mesh, [-s_ * (a + 0.5) if s_ else (a + 0.5) for s_, a in zip(sg, absu)])
        got = (pf.convectionUpwindTerm(u, upd) @ ones)[rows]
        res["evals"] += 1
        if cmp_tol(got, div, rel=1e-11).any():
            k = "C06:upwind_of_constant:%s:explicit_direction" % g.cls
            if k not in seen:
                seen.add(k)
                F.append({"key": k, "msg": "upwind advection of the constant 1 on %s with flow directions %s and a separate upwind-direction field differs from divergenceTerm(u)" % (U.spec_id(g.spec), list(sg)), "detail": {}})
        rhs = np.asarray(pf.convectionTVDupwindRHSTerm(u, g.cell(np.ones(g.fshape)), pf.fluxLimiter("SUPERBEE")), dtype=float)
        if not np.all(rhs == 0.0):
            k = "C06:tvd_of_constant:%s:axis_directions" % g.cls
            if k not in seen:
                seen.add(k)
                F.append({"key": k, "msg": "TVD correction of a constant on %s with flow directions %s per axis is not zero" % (U.spec_id(g.spec), list(sg)), "detail": {}})
    # generic velocity and every limiter: TVD correction of a constant vanishes; also c != 1
    for tag, signed in ((41, True), (43, False)):
        u = U.generic_face(g.mesh, tag=tag, signed=signed)
        div = np.asarray(pf.divergenceTerm(u), dtype=float)[rows]
        for c in (1.0, -2.5, 1024.0):
            for nm, T in (("central", pf.convectionTerm), ("upwind", pf.convectionUpwindTerm)):
                got = (dense(T(u)) @ (c * ones))[rows]
                res["evals"] += 1
                res["nontrivial"] += 1
                if cmp_tol(got, c * div, rel=1e-11).any():
                    k = "C06:%s_of_constant:%s:generic_u" % (nm, g.cls)
                    if k not in seen:
                        seen.add(k)
                        F.append({"key": k, "msg": "%s advection of the constant %g on %s with a generic velocity differs from c*divergenceTerm(u)" % (nm, c, U.spec_id(g.spec)), "detail": {}})
            phi = g.cell(c * np.ones(g.fshape))
            for lname in LIMITERS:
                rhs = np.asarray(pf.convectionTVDupwindRHSTerm(u, phi, pf.fluxLimiter(lname)), dtype=float)
                res["evals"] += 1
                res["nontrivial"] += 1
                if not np.all(rhs == 0.0):
                    k = "C06:tvd_of_constant:%s:%s" % (g.cls, lname)
                    if k not in seen:
                        seen.add(k)
                        F.append({"key": k, "msg": "TVD correction (%s) of the constant field %g on %s is not zero (max |.| = %r)"
                                                   % (lname, c, U.spec_id(g.spec), float(np.nanmax(np.abs(rhs))) if np.any(np.isfinite(rhs)) else float("nan")),
                                  "detail": {}})


    # one long-lived velocity object: assembled, its face values overwritten in place (the documented way of
    # editing a FaceVariable), assembled again - and the same for velocities of very small / large magnitude
    a0 = g.face_arrays(U.generic_face(g.mesh, tag=45, signed=True))
    ush = U.face_from_arrays(g.mesh, a0)
    phi1 = g.cell(np.ones(g.fshape))
    edits = [("first assembly", [a.copy() for a in a0]), ("sign flipped in place", [-a for a in a0]),
             ("scaled by 2^-40 in place", [a * 2.0 ** -40 for a in a0]),
             ("every other face reversed in place", [np.where(np.indices(a.shape).sum(axis=0) % 2 == 0, a, -a) * 2.0 ** 45 for a in a0]),
             ("set to zero in place", [np.zeros_like(a) for a in a0])]
    for label, arrs in edits:
        for ax in range(g.d):
            getattr(ush, U.COMP[ax])[...] = arrs[ax]
        div = np.asarray(pf.divergenceTerm(U.face_from_arrays(g.mesh, arrs)), dtype=float)[rows]
        for nm, T in (("central", pf.convectionTerm), ("upwind", pf.convectionUpwindTerm)):
            got = (dense(T(ush)) @ ones)[rows]
            res["evals"] += 1
            res["nontrivial"] += 1
            if cmp_tol(got, div, rel=1e-11).any():
                k = "C06:%s_of_constant:%s:velocity_edited_in_place" % (nm, g.cls)
                if k not in seen:
                    seen.add(k)
                    F.append({"key": k, "msg": "%s advection of the constant 1 on %s, velocity object %s: result %.6g differs from divergenceTerm(u) %.6g of the current velocity"
                                               % (nm, U.spec_id(g.spec), label, float(got[np.argmax(np.abs(got - div))]), float(div[np.argmax(np.abs(got - div))])), "detail": {}})
        rhs = np.asarray(pf.convectionTVDupwindRHSTerm(ush, phi1, pf.fluxLimiter("Koren")), dtype=float)
        res["evals"] += 1
        if not np.all(rhs == 0.0):
            k = "C06:tvd_of_constant:%s:velocity_edited_in_place" % g.cls
            if k not in seen:
                seen.add(k)
                F.append({"key": k, "msg": "TVD correction of a constant on %s is not zero (velocity object %s)" % (U.spec_id(g.spec), label), "detail": {}})


def _source_part(g, res):
    F = res["findings"]
    fields = [("generic", U.generic_array(g.dims, tag=51, signed=True), U.generic_array(g.dims, tag=53, signed=True))]
    if g.d > 1:     # layered media: beta / gamma vary along one axis only
        fields.append(("beta along the last axis, gamma along the first", U.layered_array(g.dims, g.d - 1, tag=55, signed=True), U.layered_array(g.dims, 0, tag=57, signed=True)))
        fields.append(("beta along the first axis, gamma along the last", U.layered_array(g.dims, 0, tag=55, signed=True), U.layered_array(g.dims, g.d - 1, tag=57, signed=True)))
    for _fname, beta, gamma in fields:
        _source_fields(g, res, F, beta, gamma, _fname)


def _source_fields(g, res, F, beta, gamma, fname):
    for bcname in ("noflux", "dirichlet"):
        bc = pf.BoundaryConditions(g.mesh)
        if bcname == "dirichlet":
            for ax in range(g.d):
                for side in U.SIDES[ax]:
                    getattr(bc, side).fixedValue(3.0)
        phi = pf.CellVariable(g.mesh, 7.0, bc)
        pf.solvePDE(phi, [pf.linearSourceTerm(pf.CellVariable(g.mesh, beta)),
                          pf.constantSourceTerm(pf.CellVariable(g.mesh, gamma))])
        res["evals"] += 1
        res["nontrivial"] += 1
        want = gamma / beta
        got = np.asarray(phi.value)
        if not np.all(np.abs(got - want) <= 64 * EPS * np.abs(want) * max(1.0, float(np.max(np.abs(beta)) / np.min(np.abs(beta))))):
            i = np.unravel_index(int(np.argmax(np.abs(got - want))), got.shape)
            F.append({"key": "C06:source_local:%s" % g.cls,
                      "msg": "beta*phi = gamma alone on %s (%s boundaries): phi%s = %.12g, gamma/beta = %.12g"
                             % (U.spec_id(g.spec), bcname, list(map(int, i)), got[i], want[i]), "detail": {}})


# ------------------------------------------------------------------ solenoidal basis

def solenoidal_basis(g, met):
    """Yield (label, face flux arrays Phi) for a basis of the discretely divergence-free
    flux fields: Phi_f = (face area)*(u_f).  1-D: the single constant flux.  2-D: unit nodal
    stream functions.  3-D: unit edge circulations (edges along each axis)."""
    if g.d == 1:
        yield ("q", [np.ones(g.face_shapes[0])])
        return
    planes = [(0, 1)] if g.d == 2 else [(0, 1), (0, 2), (1, 2)]
    for (a, b) in planes:
        c_axes = [x for x in range(g.d) if x not in (a, b)]
        layers = range(g.dims[c_axes[0]]) if c_axes else [None]
        for k in layers:
            for i in range(g.dims[a] + 1):
                for j in range(g.dims[b] + 1):
                    Phi = [np.zeros(sh) for sh in g.face_shapes]

                    def fidx(ax_face, ia, jb):
                        idx = [0] * g.d
                        idx[a], idx[b] = ia, jb
                        if c_axes:
                            idx[c_axes[0]] = k
                        return tuple(idx)
                    # a-faces (normal along a) at node-line i: cells j-1 and j along b
                    if j - 1 >= 0:
                        Phi[a][fidx(a, i, j - 1)] += 1.0     # psi(i,j) - psi(i,j-1), unit psi at (i,j)
                    if j <= g.dims[b] - 1:
                        Phi[a][fidx(a, i, j)] -= 1.0
                    # b-faces at node-line j: cells i-1 and i along a
                    if i - 1 >= 0:
                        Phi[b][fidx(b, i - 1, j)] -= 1.0
                    if i <= g.dims[a] - 1:
                        Phi[b][fidx(b, i, j)] += 1.0
                    yield ("plane%d%d:layer%s:node%d,%d" % (a, b, k, i, j), Phi)


def _fixedpoint_part(g, res, tier, setups=("dirichlet", "mixed"), advs=("upwind", "central")):
    F = res["findings"]
    met = U.metric(g.cls, g.mesh)
    rows = np.flatnonzero(g.imask)
    kinds = U.AXES[g.cls]
    seen = set()
    D = U.generic_face(g.mesh, tag=61)
    alpha_field = pf.CellVariable(g.mesh, U.generic_array(g.dims, tag=63))
    c = 2.75
    for label, Phi in solenoidal_basis(g, met):
        # velocity = flux / area ; skip basis elements that need flux through a zero-area face
        uarr, ok = [], True
        for ax in range(g.d):
            A = met["area"][ax]
            z = (np.abs(A) <= 1e-14 * np.max(np.abs(A)))
            if np.any(z & (Phi[ax] != 0)):
                ok = False
                break
            uarr.append(np.where(z, 0.0, Phi[ax] / np.where(z, 1.0, A)))
        if not ok:
            continue
        for scale in (1.0, -3.0):
            ua = [scale * a for a in uarr]
            u = U.face_from_arrays(g.mesh, ua)
            div = np.asarray(pf.divergenceTerm(u), dtype=float)[rows]
            usc = max(float(np.max(np.abs(a))) for a in ua)
            if np.any(np.abs(div) > 1e-11 * usc / min(float(np.min(np.diff(f))) for f in U.spec_faces(g.spec))):
                res["precond_failed"] = res.get("precond_failed", 0) + 1
                continue
            # boundary set-ups: Dirichlet c everywhere; no-flux on sides without normal velocity
            for setup in setups:
                for adv_name, adv in (("upwind", pf.convectionUpwindTerm), ("central", pf.convectionTerm)):
                    if adv_name not in advs:
                        continue
                    Madv = adv(u)
                    Mdiff = -pf.diffusionTerm(D)
                    for alpha_kind in ("scalar", "field"):
                        for dt in DT[tier]:
                            bc = pf.BoundaryConditions(g.mesh)
                            for ax in range(g.d):
                                lo = [slice(None)] * g.d
                                hi = [slice(None)] * g.d
                                lo[ax], hi[ax] = 0, -1
                                for side, sl in zip(U.SIDES[ax], (lo, hi)):
                                    wall = np.all(ua[ax][tuple(sl)] == 0)
                                    if setup == "dirichlet" or not wall:
                                        getattr(bc, side).fixedValue(c)
                            phi = pf.CellVariable(g.mesh, c, bc)
                            alpha = 1.5 if alpha_kind == "scalar" else alpha_field
                            eq = [pf.transientTerm(phi, dt, alpha), Madv, Mdiff]
                            Mtot = dense(phi._BCsTerm[0]) + dense(eq[0][0]) + dense(Madv) + dense(Mdiff)
                            kappa = float(np.linalg.cond(Mtot, np.inf)) if np.all(np.isfinite(Mtot)) else np.inf
                            res["evals"] += 1
                            if not np.isfinite(kappa) or kappa * EPS > 1e-4:
                                res["precond_failed"] = res.get("precond_failed", 0) + 1
                                continue
                            pf.solvePDE(phi, eq)
                            res["nontrivial"] += 1
                            err = float(np.max(np.abs(np.asarray(phi.value) - c)))
                            if not err <= 64 * EPS * kappa * abs(c):
                                k = "C06:fixedpoint:%s:%s" % (g.cls, adv_name)
                                if k in seen:
                                    continue
                                seen.add(k)
                                F.append({"key": k,
                                          "msg": "uniform field %g in a discretely divergence-free flow (%s, scale %g) on %s, %s BCs, %s advection, alpha %s, dt=%g: solvePDE moves it by %.3g (tolerance %.3g)"
                                                 % (c, label, scale, U.spec_id(g.spec), setup, adv_name, alpha_kind, dt, err, 64 * EPS * kappa * abs(c)),
                                          "detail": {"grid": U.spec_id(g.spec), "stream": label, "dt": dt}})


def run_case(case):
    g = Grid(case["grid"])
    res = {"evals": 0, "nontrivial": 0, "findings": [], "outcomes": {}}
    part = case["part"]
    if part == "const_big":
        _const_part(g, res, big=True)
    elif part == "const":
        _const_part(g, res)
    elif part == "source":
        _source_part(g, res)
    else:
        _fixedpoint_part(g, res, case.get("tier", "quick"), (case.get("setup", "dirichlet"),), (case.get("adv", "upwind"),))
    res["outcomes"] = {"%s:%s" % (part, "ok" if not res["findings"] else "viol"): 1}
    res["sample"] = {"grid": U.spec_id(g.spec), "part": part}
    return res
