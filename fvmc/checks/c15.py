"""C15 - assembly is pure and deterministic: builders never modify their inputs.

Engine C flavour: the world is (mesh, coefficient face variables, cell variables with
Robin BCs, prebuilt terms); the menu is every public builder / solver.  Every sequence of
<= 2 (thorough: 3) calls is executed; for every call in every sequence
  * a byte snapshot of everything reachable from the inputs is unchanged (only the solution
    variable of solvePDE may change); inputs are frozen (writeable=False) so an in-place
    write raises at the faulty line,
  * the result is bit-identical to the result of the same call in a fresh world (so hidden
    state left behind by an earlier call is caught for all ordered pairs/triples),
  * returned arrays share no memory with mesh storage nor with the inputs.
Plus: terms built once and reused over k solves == terms rebuilt every step.
"""
import itertools

import numpy as np
import scipy.sparse as sp

from ..env import pf
from .. import universe as U

ID = "C15"
LEVEL = "model_checking"
RULE = ("states = call-sequence prefixes (fresh world + sequence of public builder/solver calls), transitions = calls; "
        "all sequences up to the depth bound over the full menu, on 9 classes x 2 shapes; every transition checks the "
        "input snapshot, the frozen inputs, bit-identity with the fresh-world result and aliasing")
ASSUMPTIONS = ["mesh.cellvolume (a property, not a builder) may return a view and is not part of the property",
               "solveExplicitPDE may refresh the ghost layer/dirty bits of a *dirty* input (it calls apply_BCs); inputs here are clean"]
SHAPES = {1: [(3,), (1,)], 2: [(2, 3), (1, 2)], 3: [(2, 1, 3), (2, 2, 2)]}


def bounds(tier):
    return {"sequence_length": 2 if tier == "quick" else 3, "menu": len(MENU), "shapes": {str(k): v for k, v in SHAPES.items()},
            "input_edits_between_calls": "see EDITS in fvmc/checks/c15.py (11)", "other_mesh_first": "other spacing / length unit 2^-30 / (N,L) form / other classes of the same dimension"}


# ------------------------------------------------------------------ world

class W:
    pass


def make_world(spec):
    w = W()
    w.spec = spec
    w.mesh = U.make_mesh(spec)
    m = w.mesh
    d = U.dim(spec["cls"])
    dims = tuple(int(k) for k in m.dims)
    w.D = U.generic_face(m, tag=101)
    w.u = U.generic_face(m, tag=103, signed=True)
    w.u2 = U.generic_face(m, tag=105, signed=True)
    bc = pf.BoundaryConditions(m)
    t = 0
    for ax in range(d):
        for side in U.SIDES[ax]:
            t += 1
            bf = getattr(bc, side)
            bf.a = 1.0
            bf.b = 8.0 + t
            bf.c = 0.5 * t
    if spec["cls"] in ("PolarGrid2D", "CylindricalGrid3D", "SphericalGrid3D"):
        for ax in range(1, d):
            for side in U.SIDES[ax]:
                getattr(bc, side).b = 64.0
    w.bc = bc
    w.phi = pf.CellVariable(m, U.generic_array(dims, tag=107), bc)
    w.phi.apply_BCs()
    w.sol = pf.CellVariable(m, U.generic_array(dims, tag=109), pf.BoundaryConditions(m))
    w.beta = pf.CellVariable(m, U.generic_array(dims, tag=111))
    w.M = pf.linearSourceTerm(w.beta)
    w.v = pf.constantSourceTerm(w.beta)
    w.FL = pf.fluxLimiter("Koren")
    Mbc, rbc = pf.boundaryConditionsTerm(pf.BoundaryConditions(m))
    w.Mfull = (Mbc + w.M - pf.diffusionTerm(w.D)).tocsr()
    w.rfull = rbc + w.v
    w.rhs_expl = U.generic_array(tuple(k + 2 for k in dims), tag=113, signed=True).ravel()
    # variables whose ghost layer is NOT the one their BC object generates, with clean flags: built from an array that
    # includes the ghost cells, and returned by solveMatrixPDE (both documented ways of obtaining a variable)
    w.phig = pf.CellVariable(m, U.generic_array(tuple(k + 2 for k in dims), tag=115, signed=True))
    assert not (w.phig.BCs.modified or w.phig.value.modified)
    w.phim = pf.solveMatrixPDE(m, w.Mfull, w.rfull)
    # a coefficient field with exact zeros (an impermeable layer): first cell, last cell, every third one
    z = np.array(U.generic_array(dims, tag=117))
    z.flat[::3] = 0.0
    z.flat[-1] = 0.0
    w.beta0 = pf.CellVariable(m, z)
    return w


MENU = {
    "diffusionTerm": lambda w: pf.diffusionTerm(w.D),
    "convectionTerm": lambda w: pf.convectionTerm(w.u),
    "convectionUpwindTerm": lambda w: pf.convectionUpwindTerm(w.u),
    "convectionUpwindTerm_dir": lambda w: pf.convectionUpwindTerm(w.u, w.u2),
    "convectionTVDupwindRHSTerm": lambda w: pf.convectionTVDupwindRHSTerm(w.u, w.phi, w.FL),
    "linearSourceTerm": lambda w: pf.linearSourceTerm(w.beta),
    "constantSourceTerm": lambda w: pf.constantSourceTerm(w.beta),
    "transientTerm": lambda w: pf.transientTerm(w.phi, 0.25, 1.5),
    "transientTerm_alpha": lambda w: pf.transientTerm(w.phi, 0.25, w.beta),
    "gradientTerm": lambda w: pf.gradientTerm(w.phi),
    "gradientTermFixedBC": lambda w: pf.gradientTermFixedBC(w.phi),
    "divergenceTerm": lambda w: pf.divergenceTerm(w.u),
    "linearMean": lambda w: pf.linearMean(w.phi),
    "arithmeticMean": lambda w: pf.arithmeticMean(w.phi),
    "geometricMean": lambda w: pf.geometricMean(w.phi),
    "harmonicMean": lambda w: pf.harmonicMean(w.phi),
    "means_of_field_with_zeros": lambda w: (pf.harmonicMean(w.beta0), pf.geometricMean(w.beta0), pf.arithmeticMean(w.beta0),
                                            pf.linearMean(w.beta0), pf.upwindMean(w.beta0, w.u)),
    "upwindMean": lambda w: pf.upwindMean(w.phi, w.u),
    "boundaryConditionsTerm": lambda w: pf.boundaryConditionsTerm(w.bc),
    "cellLocations": lambda w: pf.cellLocations(w.mesh),
    "faceLocations": lambda w: pf.faceLocations(w.mesh),
    "solvePDE": lambda w: pf.solvePDE(w.sol, [pf.transientTerm(w.phi, 0.25, 1.0), -pf.diffusionTerm(w.D), w.M, w.v,
                                                pf.convectionUpwindTerm(w.u)]),
    "solvePDE_prebuilt": lambda w: pf.solvePDE(w.sol, [w.M, w.v]),
    "solveMatrixPDE": lambda w: pf.solveMatrixPDE(w.mesh, w.Mfull, w.rfull),
    "solveExplicitPDE": lambda w: pf.solveExplicitPDE(w.phi, 0.125, w.rhs_expl),
    "solveExplicitPDE_ghosts": lambda w: pf.solveExplicitPDE(w.phig, 0.125, w.rhs_expl),
    "solveExplicitPDE_matrixresult": lambda w: pf.solveExplicitPDE(w.phim, 0.125, w.rhs_expl),
    "gradientTerm_ghosts": lambda w: (pf.gradientTerm(w.phig), pf.linearMean(w.phim), pf.upwindMean(w.phig, w.u)),
    "transientTerm_ghosts": lambda w: pf.transientTerm(w.phig, 0.25, w.phim),
    "copy_ghosts": lambda w: (w.phig.copy(), w.phim.copy(), w.phig + w.phim),
    "copy": lambda w: w.phi.copy(),
    "domainIntegral": lambda w: w.phi.domainIntegral(),
    "plotprofile": lambda w: w.phi.plotprofile(),
    "CellVariable": lambda w: pf.CellVariable(w.mesh, np.asarray(w.beta.value), w.bc),
    "CellVariable_ghosts": lambda w: pf.CellVariable(w.mesh, np.array(w.phi._value)),
    "FaceVariable": lambda w: pf.FaceVariable(w.mesh, 2.0),
    "BoundaryConditions": lambda w: pf.BoundaryConditions(w.mesh),
    "arith": lambda w: (w.phi * 2.0 + w.beta, w.D * w.u - 1.0),
    "celleval": lambda w: pf.celleval(np.exp, w.beta),
    "faceeval": lambda w: pf.faceeval(np.abs, w.u),
}
MAY_CHANGE = {"solvePDE": ("sol",), "solvePDE_prebuilt": ("sol",)}
DELIBERATE_SHARING = {"CellVariable": ("bc", "phi.BCs"), "CellVariable_ghosts": (), "solveExplicitPDE": ("bc", "phi.BCs"),
                      "solveExplicitPDE_ghosts": ("phig.BCs",), "solveExplicitPDE_matrixresult": ("phim.BCs",),
                      "solvePDE": ("sol",), "solvePDE_prebuilt": ("sol",)}
PURE = [n for n in ("diffusionTerm", "convectionTerm", "convectionUpwindTerm", "convectionUpwindTerm_dir",
                    "convectionTVDupwindRHSTerm", "linearSourceTerm", "constantSourceTerm", "transientTerm", "transientTerm_alpha",
                    "gradientTerm", "gradientTermFixedBC", "divergenceTerm", "linearMean", "arithmeticMean", "geometricMean",
                    "harmonicMean", "upwindMean", "boundaryConditionsTerm", "cellLocations", "faceLocations", "copy",
                    "gradientTerm_ghosts", "transientTerm_ghosts", "copy_ghosts", "means_of_field_with_zeros",
                    "arith", "celleval", "faceeval")]


def arrays_of(obj, prefix, out, depth=0):
    """Collect (name, ndarray) for everything reachable from a library object."""
    if obj is None or depth > 6:
        return
    if isinstance(obj, np.ndarray):
        out.append((prefix, obj))
    elif sp.issparse(obj):
        for a in ("data", "indices", "indptr"):
            out.append(("%s.%s" % (prefix, a), getattr(obj, a)))
    elif isinstance(obj, (tuple, list)):
        for i, o in enumerate(obj):
            arrays_of(o, "%s[%d]" % (prefix, i), out, depth + 1)
    elif isinstance(obj, (float, int, bool, str, np.generic)) or callable(obj) and not hasattr(obj, "__dict__"):
        return
    elif hasattr(obj, "__dict__"):
        for k, v in vars(obj).items():
            if k in ("domain",) and prefix != "mesh":
                continue
            arrays_of(v, "%s.%s" % (prefix, k), out, depth + 1)


def world_arrays(w, skip=()):
    out = []
    for name in ("mesh", "D", "u", "u2", "bc", "phi", "sol", "beta", "M", "v", "Mfull", "rfull", "rhs_expl", "phig", "phim", "beta0"):
        if name in skip:
            continue
        arrays_of(getattr(w, name), name, out)
    return out


def flags_of(w):
    """Non-array state: dirty bits and periodic flags."""
    out = []
    for name in ("phi", "sol", "beta", "phig", "phim", "beta0"):
        v = getattr(w, name)
        out.append((name, bool(v._value.modified), bool(v.BCs.modified),
                    tuple(bool(getattr(v.BCs, s).periodic) for s in ("left", "right", "bottom", "top", "back", "front")),
                    hasattr(v, "_BCsTerm")))
    out.append(("bc", bool(w.bc.modified)))
    return out


def snapshot(w, skip=()):
    return ({n: (a.shape, a.dtype.str, a.tobytes()) for n, a in world_arrays(w, skip)}, flags_of(w))


def freeze(w, skip=()):
    for n, a in world_arrays(w, skip):
        try:
            a.flags.writeable = False
        except ValueError:
            pass


def fingerprint(res):
    out = []
    arrays_of(res, "r", out)
    fp = [(n, a.shape, a.dtype.str, a.tobytes()) for n, a in out]
    if isinstance(res, (float, np.floating)):
        fp.append(("scalar", float(res).hex()))
    return fp


def _comp_arrays(fv, d):
    return [getattr(fv, U.COMP[a]) for a in range(d)]


def _e_u_flip(w, d):
    for a in _comp_arrays(w.u, d):
        a[...] = -a


def _e_u_scale(w, d):
    for a in _comp_arrays(w.u, d):
        a *= 1.5


def _e_u_zero(w, d):
    for a in _comp_arrays(w.u, d):
        a.flat[0] = 0.0
        a.flat[-1] = -a.flat[-1]


def _e_u_assign(w, d):
    for ax, lab in enumerate(U.LABELS[w.spec["cls"]]):
        setattr(w.u, lab + "value", -0.5 * np.array(getattr(w.u, U.COMP[ax])) + 0.125)


def _e_u2_flip(w, d):
    for a in _comp_arrays(w.u2, d):
        a[...] = -a


def _e_D_scale(w, d):
    for a in _comp_arrays(w.D, d):
        a *= 3.0


def _e_phi_edit(w, d):
    w.phi.value[...] = np.asarray(w.phi.value) * 1.5 + 0.25
    w.phi.apply_BCs()


def _e_phi_assign(w, d):
    w.phi.value = np.asarray(w.phi.value)[::-1].copy() if d == 1 else np.asarray(w.phi.value) * -0.5
    w.phi.apply_BCs()


def _e_beta_edit(w, d):
    w.beta.value[...] = np.asarray(w.beta.value) * 1.5
    w.beta.apply_BCs()


def _e_bc_edit(w, d):
    w.bc.left.c[:] = np.asarray(w.bc.left.c) * 2.0 + 0.5
    w.bc.right.b = np.asarray(w.bc.right.b) + 4.0
    w.phi.apply_BCs()


def _e_bc_ppm(w, d):
    w.bc.left.c = np.asarray(w.bc.left.c) * (1.0 + 2.0 ** -18)
    w.phi.apply_BCs()


EDITS = {"u_flip": _e_u_flip, "u_scale": _e_u_scale, "u_zero": _e_u_zero, "u_assign": _e_u_assign, "u2_flip": _e_u2_flip,
         "D_scale": _e_D_scale, "phi_edit": _e_phi_edit, "phi_assign": _e_phi_assign, "beta_edit": _e_beta_edit,
         "bc_edit": _e_bc_edit, "bc_ppm": _e_bc_ppm}


def _relayout(a, how):
    """The same values in another memory layout (never C-contiguous unless the array is 0/1-D of length <= 1)."""
    a = np.asarray(a)
    if how == "fortran":
        return np.asfortranarray(a) if a.ndim > 1 else a[::1]
    if how == "strided":                # every other element of a twice-as-large buffer
        big = np.zeros(tuple(2 * k for k in a.shape) if a.ndim else (), dtype=a.dtype)
        if a.ndim == 0:
            return a
        view = big[tuple(slice(None, None, 2) for _ in a.shape)]
        view[...] = a
        return view
    if how == "reversed_view":          # a negative-stride view that holds the same values
        if a.ndim == 0:
            return a
        flipped = a[tuple(slice(None, None, -1) for _ in a.shape)].copy()
        return flipped[tuple(slice(None, None, -1) for _ in a.shape)]
    raise KeyError(how)


def make_world_layout(spec, how):
    """A world whose coefficient and value arrays hold the same numbers as make_world(spec) in another memory layout."""
    w0 = make_world(spec)
    w = make_world(spec)
    m = w.mesh
    d = U.dim(spec["cls"])
    for name in ("D", "u", "u2"):
        f = getattr(w, name)
        comps = [_relayout(getattr(f, c), how) for c in U.COMP[:d]] + [np.array([])] * (3 - d)
        setattr(w, name, pf.FaceVariable(m, *comps))
    w.phi = pf.CellVariable(m, _relayout(np.asarray(w0.phi.value), how), w.bc)
    w.phi.apply_BCs()
    w.sol = pf.CellVariable(m, _relayout(np.asarray(w0.sol.value), how), pf.BoundaryConditions(m))
    w.beta = pf.CellVariable(m, _relayout(np.asarray(w0.beta.value), how))
    w.M = pf.linearSourceTerm(w.beta)
    w.v = pf.constantSourceTerm(w.beta)
    w.rhs_expl = _relayout(w0.rhs_expl, how if how != "fortran" else "strided")
    w.rfull = _relayout(w0.rfull, how if how != "fortran" else "strided")
    w.phig = pf.CellVariable(m, _relayout(np.asarray(w0.phig._value), how))
    return w


def _edit_case(case, res):
    """call; edit an input in place the documented way; call again  ==  edit; call  (bit for bit).
    The only difference between the two worlds is the earlier call: whatever a builder keeps from a
    call (memoised splits, cached matrices keyed on object identity or on dirty flags) shows here."""
    spec = case["grid"]
    d = U.dim(spec["cls"])
    gid = U.spec_id(spec)
    ename = case["edit"]
    F = res["findings"]
    for name in MENU:
        wa, wb = make_world(spec), make_world(spec)
        try:
            MENU[name](wa)
            EDITS[ename](wa, d)
            EDITS[ename](wb, d)
            ra = MENU[name](wa)
            rb = MENU[name](wb)
        except Exception as e:  # noqa: BLE001
            F.append({"key": "C15:edit_exception:%s:%s" % (name, ename), "msg": "%s / edit %s / %s on %s raises %s: %s"
                      % (name, ename, name, gid, type(e).__name__, str(e)[:120]), "detail": {"grid": gid}})
            continue
        res["evals"] += 3
        res["states"] += 3
        res["transitions"] += 3
        res["nontrivial"] += 1
        if fingerprint(ra) != fingerprint(rb):
            F.append({"key": "C15:stale_after_edit:%s:%s" % (name, ename),
                      "msg": "%s called, inputs edited in place (%s), %s called again on %s: the second result is not the one a world "
                             "without the first call gives for the edited inputs" % (name, ename, name, gid),
                      "detail": {"grid": gid, "sequence": [name, "edit:" + ename, name]}})
        if name in MAY_CHANGE:
            continue
        sa, sb = snapshot(wa), snapshot(wb)
        if sa != sb:
            changed = [n for n in sa[0] if sa[0][n] != sb[0].get(n)] + [n for n in sb[0] if n not in sa[0]] + [n for n in sa[0] if n not in sb[0]]
            F.append({"key": "C15:edit_leaves_trace:%s:%s" % (name, ename),
                      "msg": "%s / edit %s / %s on %s leaves the inputs different from a world without the first call: %s"
                             % (name, ename, name, gid, changed[:4]), "detail": {"grid": gid}})


def cases(tier):
    out = []
    L = 2 if tier == "quick" else 3
    names = list(MENU)
    for cls in U.CLASSES:
        d = U.dim(cls)
        for shape in SHAPES[d]:
            s = U.spec(cls, shape, ("I",) * d, 1)
            if L == 2:
                for a in names:
                    out.append({"grid": s, "first": [a]})
            else:
                for a in names:
                    for b in names:
                        out.append({"grid": s, "first": [a, b]})
        out.append({"grid": U.spec(cls, SHAPES[d][0], ("I",) * d, 1), "reuse": True})
        for shape in SHAPES[d]:
            for e in EDITS:
                out.append({"grid": U.spec(cls, shape, ("I",) * d, 1), "edit": e})
            # a second mesh with the same cell counts used in the same session first: another spacing, another
            # length unit, another constructor form, another grid class
            others = [U.spec(cls, shape, ("U",) * d, 0), U.spec(cls, shape, ("I",) * d, 1, -30), U.spec(cls, shape, ("L",) * d, 0)]
            others += [U.spec(c2, shape, ("I",) * d, 1) for c2 in U.CLASSES if U.dim(c2) == d and c2 != cls]
            for o in others:
                out.append({"grid": U.spec(cls, shape, ("I",) * d, 1), "other": o})
            for how in ("fortran", "strided", "reversed_view"):
                out.append({"grid": U.spec(cls, shape, ("I",) * d, 1), "layout": how})
    return out


def weight(case):
    return int(np.prod([k + 2 for k in case["grid"]["shape"]])) * (3 if case.get("reuse") else 1)


_REF = {}


def reference(spec, name):
    """Result fingerprint of `name` called first in a fresh world."""
    key = (U.spec_id(spec), name)
    if key not in _REF:
        w = make_world(spec)
        _REF[key] = fingerprint(MENU[name](w))
    return _REF[key]


def _call_checked(w, name, seq, res, seen):
    F = res["findings"]
    skip = MAY_CHANGE.get(name, ())
    before = snapshot(w, skip)
    freeze(w, skip)
    gid = U.spec_id(w.spec)
    res["evals"] += 1
    res["transitions"] = res.get("transitions", 0) + 1
    try:
        r = MENU[name](w)
    except Exception as e:  # noqa: BLE001
        k = "C15:%s:%s" % ("writes_input" if "read-only" in str(e) else "exception", name)
        if k not in seen:
            seen.add(k)
            F.append({"key": k, "msg": "%s after %s on %s with frozen inputs raises %s: %s" % (name, seq, gid, type(e).__name__, str(e)[:120]),
                      "detail": {"sequence": seq + [name], "grid": gid}})
        return None
    after = snapshot(w, skip)
    if after != before:
        changed = [n for n in before[0] if before[0][n] != after[0].get(n)] + \
                  [n for n in after[0] if n not in before[0]]
        if before[1] != after[1]:
            changed.append("dirty/periodic flags %s -> %s" % (before[1], after[1]))
        k = "C15:modifies_input:%s" % name
        if k not in seen:
            seen.add(k)
            F.append({"key": k, "msg": "%s after %s on %s changed its inputs: %s" % (name, seq, gid, changed[:4]),
                      "detail": {"sequence": seq + [name], "grid": gid, "changed": changed[:10]}})
    # aliasing: result arrays must not share memory with mesh storage or other inputs
    rarrs = []
    arrays_of(r, "r", rarrs)
    inputs = world_arrays(w, skip)
    for rn, ra in rarrs:
        if ra.size == 0:
            continue
        for n, a in inputs:
            if a.size and np.shares_memory(ra, a):
                if name in ("solvePDE", "solvePDE_prebuilt") and n.startswith("sol"):
                    continue
                if not n.startswith("mesh") and name in DELIBERATE_SHARING and \
                        any(n.startswith(pfx) for pfx in DELIBERATE_SHARING[name]):
                    # constructors take a BC object / a ghost-including user array by reference and
                    # solveExplicitPDE hands its input's BC object to its result: by design
                    continue
                k = "C15:aliases_%s:%s" % ("mesh" if n.startswith("mesh") else "input", name)
                if k not in seen:
                    seen.add(k)
                    F.append({"key": k, "msg": "%s on %s returns %s sharing memory with %s" % (name, gid, rn, n),
                              "detail": {"sequence": seq + [name], "grid": gid}})
    # two successive calls must return separately stored results (no memoised/aliased objects)
    if name in PURE:
        r2 = MENU[name](w)
        a1, a2 = [], []
        arrays_of(r, "r", a1)
        arrays_of(r2, "r", a2)
        for (n1, x), (n2, y) in zip(a1, a2):
            if n1.startswith("r.domain") or ".domain." in n1 or x.size == 0:
                continue
            if x is y or np.shares_memory(x, y):
                k = "C15:repeated_calls_alias:%s" % name
                if k not in seen:
                    seen.add(k)
                    F.append({"key": k, "msg": "two calls of %s on %s return results sharing storage (%s): an in-place edit of one corrupts the other"
                                               % (name, gid, n1), "detail": {"sequence": seq + [name, name], "grid": gid}})
                break
    return r


def run_case(case):
    res = {"evals": 0, "nontrivial": 0, "findings": [], "outcomes": {}, "states": 0, "transitions": 0}
    spec = case["grid"]
    seen = set()
    F = res["findings"]
    gid = U.spec_id(spec)
    if case.get("layout"):
        # equal inputs in another memory layout (Fortran order, strided views, negative strides) give bit-identical results
        for name in MENU:
            try:
                r = MENU[name](make_world_layout(spec, case["layout"]))
            except Exception as e:  # noqa: BLE001
                F.append({"key": "C15:layout_exception:%s:%s" % (name, case["layout"]), "msg": "%s on %s with %s input arrays raises %s: %s"
                          % (name, gid, case["layout"], type(e).__name__, str(e)[:100]), "detail": {}})
                continue
            res["evals"] += 1
            res["states"] += 1
            res["transitions"] += 1
            res["nontrivial"] += 1
            if fingerprint(r) != reference(spec, name):
                F.append({"key": "C15:layout:%s:%s" % (name, case["layout"]),
                          "msg": "%s on %s: input arrays holding the same values in %s layout give a result that is not bit-identical to the C-contiguous one"
                                 % (name, gid, case["layout"]), "detail": {"grid": gid}})
        res["outcomes"] = {"layout:%s" % ("ok" if not F else "viol"): 1}
        res["sample"] = {"grid": gid, "layout": case["layout"]}
        return res
    if case.get("other"):
        # every builder on mesh A, then on mesh B (same cell counts): B's result is the fresh-world one
        for name in MENU:
            wa, wb = make_world(case["other"]), make_world(spec)
            try:
                ra = MENU[name](wa)         # the OLDER mesh is used after the newer one was built
                r = MENU[name](wb)
                if fingerprint(ra) != reference(case["other"], name):
                    F.append({"key": "C15:cross_mesh_older:%s" % name,
                              "msg": "%s on %s is not bit-identical to a fresh session once a second mesh (%s) has been built"
                                     % (name, U.spec_id(case["other"]), gid), "detail": {"grid": U.spec_id(case["other"]), "other": gid}})
            except Exception as e:  # noqa: BLE001
                F.append({"key": "C15:cross_mesh_exception:%s" % name, "msg": "%s on %s after the same call on %s raises %s: %s"
                          % (name, gid, U.spec_id(case["other"]), type(e).__name__, str(e)[:100]), "detail": {}})
                continue
            res["evals"] += 2
            res["states"] += 2
            res["transitions"] += 2
            res["nontrivial"] += 1
            if fingerprint(r) != reference(spec, name):
                F.append({"key": "C15:cross_mesh:%s" % name,
                          "msg": "%s on %s is not bit-identical to a fresh session when the same builder was used on %s before"
                                 % (name, gid, U.spec_id(case["other"])), "detail": {"grid": gid, "other": U.spec_id(case["other"])}})
        res["outcomes"] = {"cross:%s" % ("ok" if not F else "viol"): 1}
        res["sample"] = {"grid": gid, "other": U.spec_id(case["other"])}
        return res
    if case.get("edit"):
        _edit_case(case, res)
        res["outcomes"] = {"edit:%s" % ("ok" if not F else "viol"): 1}
        res["sample"] = {"grid": gid, "edit": case["edit"]}
        return res
    if case.get("reuse"):
        # terms built once and reused over k solves == terms rebuilt every step
        wa, wb = make_world(spec), make_world(spec)
        terms = [-pf.diffusionTerm(wa.D), pf.convectionUpwindTerm(wa.u), wa.M, wa.v]
        snap = fingerprint(terms)
        lst = list(terms)
        for k in range(4):
            # the reused terms come first or last in the list, alternating (the first right-hand-side term of a list
            # is where an accumulation "RHS = first; RHS += next" would write into the caller's array)
            lst2 = ([pf.transientTerm(wa.sol, 0.25, 1.0)] + terms) if k % 2 == 0 else (terms[::-1] + [pf.transientTerm(wa.sol, 0.25, 1.0)])
            ids = [id(t) for t in lst2]
            pf.solvePDE(wa.sol, lst2)
            if [id(t) for t in lst2] != ids or len(lst) != len(terms):
                F.append({"key": "C15:solvePDE_modifies_term_list", "msg": "solvePDE changed the list of terms it was given on %s (length %d -> %d)"
                          % (gid, len(ids), len(lst2)), "detail": {}})
                break
            # the reference rebuilds every term and lists them in the same order (the summation order decides the rounding)
            fresh = [-pf.diffusionTerm(wb.D), pf.convectionUpwindTerm(wb.u), pf.linearSourceTerm(wb.beta), pf.constantSourceTerm(wb.beta)]
            pf.solvePDE(wb.sol, ([pf.transientTerm(wb.sol, 0.25, 1.0)] + fresh) if k % 2 == 0 else (fresh[::-1] + [pf.transientTerm(wb.sol, 0.25, 1.0)]))
            res["evals"] += 2
            res["states"] += 1
            res["transitions"] += 2
            if fingerprint(terms) != snap:
                F.append({"key": "C15:solvePDE_modifies_terms", "msg": "solvePDE modified the reused term objects on %s (step %d)" % (gid, k), "detail": {}})
                break
            if not np.array_equal(np.asarray(wa.sol._value), np.asarray(wb.sol._value)):
                F.append({"key": "C15:term_reuse_differs", "msg": "reusing terms across steps differs from rebuilding them on %s (step %d)" % (gid, k), "detail": {}})
                break
        res["nontrivial"] = res["evals"]
        res["outcomes"] = {"reuse:%s" % ("ok" if not F else "viol"): 1}
        return res
    names = list(MENU)
    first = case["first"]
    for last in names:
        seq = first + [last]
        w = make_world(spec)
        res["states"] += len(seq)
        for i, name in enumerate(seq):
            r = _call_checked(w, name, seq[:i], res, seen)
            if r is None:
                break
            # bit-identity with the same call in a fresh world - unless the call depends on state
            # that an earlier solvePDE legitimately changed (the solution variable)
            dep_on_sol = name in ("solvePDE", "solvePDE_prebuilt") and any(x in MAY_CHANGE for x in seq[:i])
            if not dep_on_sol:
                res["nontrivial"] += 1
                if fingerprint(r) != reference(spec, name):
                    k = "C15:nondeterministic:%s:after:%s" % (name, seq[i - 1] if i else "-")
                    if k not in seen:
                        seen.add(k)
                        F.append({"key": k, "msg": "%s after %s on %s is not bit-identical to the same call in a fresh world" % (name, seq[:i], gid),
                                  "detail": {"sequence": seq[:i + 1], "grid": gid}})
    res["outcomes"] = {"seq:%s" % ("ok" if not F else "viol"): 1}
    res["sample"] = {"grid": gid, "sequence": first + [names[0]]}
    return res
