"""C11 - cell-to-face means are true means of the two adjacent cells in any dimension.

Engine A/D per grid instance: loop-based weighted-mean formulas on every face; bounds for
all {1,2,4}-assignments to the two adjacent cells; constants; harmonic<=geometric<=arithmetic;
linearMean exact on linear fields; upwindMean donor/boundary/zero-velocity rules; locality
over all (cell, face) pairs; 1-D == 2-D == 3-D on lifted line fields over {0,1,2,4} (zeros).
"""
import itertools
import math

import numpy as np

from ..env import pf, EPS
from .. import universe as U
from ..opkit import Grid

ID = "C11"
LEVEL = "model_checking"
RULE = ("cases = grid instance x part; formula/bounds: every face x every assignment of {1,2,4} to its two cells; "
        "locality: every (cell, face) pair; lifting: every line field over {0,1,2,4}^(N+2) x axis x mean; "
        "a comparison is non-trivial when the reference face value is defined (always) - counted per face compared")
ASSUMPTIONS = ["reference: width-weighted means with the weights written in the library's docstrings "
               "(arithmetic/harmonic/geometric weighted by the own cell width, linear interpolation weighted by the opposite width)",
               "a zero in either adjacent cell makes the harmonic and geometric face value 0 (the 1-D convention of the library)"]
MEANS = ["linearMean", "arithmeticMean", "geometricMean", "harmonicMean"]


def bounds(tier):
    return {"grids": U.grid_bounds(tier), "line_alphabet": [0, 1, 2, 4], "value_magnitudes": ["1", "2^-40", "2^60"],
            "velocity_magnitudes": ["O(1)", "2^-40", "2^-80", "2^50", "5e-324"]}


def cases(tier):
    out = []
    specs = U.grid_specs(tier)
    if tier == "thorough":
        specs = specs + U.grid_specs("thorough", classes=[c for c in U.CLASSES if U.dim(c) <= 2],
                                     shapes_override={1: [(4,)], 2: [(4, 1), (1, 4), (4, 3), (2, 4)]})
    for s in specs:
        for part in ("formula", "locality", "upwind", "lift"):
            if part == "lift" and s["org"] == 1 and tier == "quick":
                continue
            out.append({"grid": s, "part": part})
    for s in U.big_specs():
        out.append({"grid": s, "part": "formula"})
        out.append({"grid": s, "part": "upwind_big"})
    return out


def weight(case):
    sh = case["grid"]["shape"]
    n = int(np.prod([k + 2 for k in sh]))
    if max(sh) > 8:
        return n
    return n * {"formula": 3, "locality": n / 4.0, "upwind": 3, "upwind_big": 1, "lift": 4 ** (max(sh) + 2) / 10.0}[case["part"]]


def ref_mean(name, a, b, da, db):
    """Face value between cell values a (low side, width da) and b (high side, width db)."""
    if name == "linearMean":
        return (db * a + da * b) / (da + db)
    if name == "arithmeticMean":
        return (da * a + db * b) / (da + db)
    if name == "geometricMean":
        if a == 0 or b == 0:
            return 0.0
        return math.exp((da * math.log(a) + db * math.log(b)) / (da + db))
    if name == "harmonicMean":
        if a == 0 or b == 0:
            return 0.0
        return (da + db) / (da / a + db / b)
    raise KeyError(name)


def _adj(g, ax, idx):
    lo = [i + 1 for i in idx]
    lo[ax] = idx[ax]
    hi = list(lo)
    hi[ax] = idx[ax] + 1
    return tuple(lo), tuple(hi)


def _sizes(g):
    return [np.asarray(getattr(g.mesh.cellsize, a)) for a in ("_x", "_y", "_z")[:g.d]]


def _close(x, y, ulps=16):
    return abs(x - y) <= ulps * EPS * max(abs(x), abs(y)) + 1e-300


def _formula_part(g, res):
    F = res["findings"]
    sz = _sizes(g)
    seen = set()

    def add(kind, name, msg):
        k = "C11:%s:%s:%dD" % (kind, name, g.d)
        if k not in seen:
            seen.add(k)
            F.append({"key": k, "msg": "%s on %s: %s" % (name, U.spec_id(g.spec), msg), "detail": {"grid": U.spec_id(g.spec)}})
    base = U.generic_array(g.fshape, tag=71)              # positive, all distinct
    for name in MEANS:
        fn = getattr(pf, name)
        # (i) formula on a generic positive field, in O(1) units and in units where every value is
        #     ~1e-12 / ~1e18 (a diffusivity in m2/s, a concentration in molecules per m3)
        for mag in (1.0, 2.0 ** -40, 2.0 ** 60):
            fldm = base * mag
            arrs = g.face_arrays(fn(g.cell(fldm)))
            res["evals"] += len(g.faces)
            for (ax, idx) in g.faces:
                lo, hi = _adj(g, ax, idx)
                want = ref_mean(name, fldm[lo], fldm[hi], sz[ax][idx[ax]], sz[ax][idx[ax] + 1])
                res["nontrivial"] += 1
                if not _close(arrs[ax][idx], want, ulps=16 if name != "geometricMean" else 16 + 8 * abs(math.log(want))):
                    add("formula" if mag == 1.0 else "formula_magnitude", name,
                        "face axis %d %s is %.15g, width-weighted mean of its two cells (%.6g, %.6g) is %.15g"
                        % (ax, list(idx), arrs[ax][idx], fldm[lo], fldm[hi], want))
        # (iii) constants
        for c in (1.0, 0.375, 4096.0, 1e-9, 3e-13, 2.5e14):
            arrs = g.face_arrays(fn(g.cell(np.full(g.fshape, c))))
            res["evals"] += 1
            for ax in range(g.d):
                # geometric mean goes through exp(log c): relative rounding error ~ |log c| ulp
                ul = 8 + (8 * abs(math.log(c)) if name == "geometricMean" else 0)
                if not np.all(np.abs(arrs[ax] - c) <= ul * EPS * c):
                    add("constant", name, "constant %g is not reproduced on axis %d" % (c, ax))
        # (ii) bounds for all {1,2,4} assignments to the two adjacent cells
        for va, vb in itertools.product((1.0, 2.0, 4.0), repeat=2):
            for (ax, idx) in g.faces:
                lo, hi = _adj(g, ax, idx)
                fld = base.copy()
                fld[lo], fld[hi] = va, vb
                v = g.face_arrays(fn(g.cell(fld)))[ax][idx]
                res["evals"] += 1
                res["nontrivial"] += 1
                if not (min(va, vb) * (1 - 4 * EPS) <= v <= max(va, vb) * (1 + 4 * EPS)):
                    add("bounds", name, "face axis %d %s between cell values %g and %g is %.15g" % (ax, list(idx), va, vb, v))
    # (v) zeros of either sign in the two adjacent cells (-0.0 comes out of ordinary arithmetic: mask*field, -c): every mean is
    #     finite; harmonic and geometric give 0; arithmetic / linear give the weighted mean of the other value
    for (ax, idx) in g.faces:
        lo, hi = _adj(g, ax, idx)
        for za, zb in ((0.0, -0.0), (-0.0, 0.0), (-0.0, -0.0), (-0.0, 2.0), (2.0, -0.0)):
            fld = base.copy()
            fld[lo], fld[hi] = za, zb
            for name in MEANS:
                v = g.face_arrays(getattr(pf, name)(g.cell(fld)))[ax][idx]
                res["evals"] += 1
                res["nontrivial"] += 1
                want = ref_mean(name, abs(za), abs(zb), sz[ax][idx[ax]], sz[ax][idx[ax] + 1])
                if not (np.isfinite(v) and _close(abs(v), want)):
                    add("signed_zero", name, "face axis %d %s between cell values %r and %r is %r, expected %r" % (ax, list(idx), za, zb, float(v), want))
    # (iv) ordering harmonic <= geometric <= arithmetic, same weighting
    for tag in (73, 75):
        fld = U.generic_array(g.fshape, tag=tag)
        H = g.face_arrays(pf.harmonicMean(g.cell(fld)))
        G = g.face_arrays(pf.geometricMean(g.cell(fld)))
        A = g.face_arrays(pf.arithmeticMean(g.cell(fld)))
        for ax in range(g.d):
            res["evals"] += int(H[ax].size)
            res["nontrivial"] += int(H[ax].size)
            if not (np.all(H[ax] <= G[ax] * (1 + 8 * EPS)) and np.all(G[ax] <= A[ax] * (1 + 8 * EPS))):
                add("ordering", "harmonic<=geometric<=arithmetic", "violated on axis %d" % ax)
    # (v) linearMean is exact for fields linear in the coordinate of each axis
    fc = [np.asarray(getattr(g.mesh.facecenters, a)) for a in ("_x", "_y", "_z")[:g.d]]
    for ax in range(g.d):
        cc = np.concatenate([[fc[ax][0] - sz[ax][0] / 2], 0.5 * (fc[ax][1:] + fc[ax][:-1]), [fc[ax][-1] + sz[ax][-1] / 2]])
        sh = [1] * g.d
        sh[ax] = g.fshape[ax]
        fld = np.broadcast_to((0.75 + 1.5 * cc).reshape(sh), g.fshape).copy()
        arr = g.face_arrays(pf.linearMean(g.cell(fld)))[ax]
        shf = [1] * g.d
        shf[ax] = len(fc[ax])
        want = np.broadcast_to((0.75 + 1.5 * fc[ax]).reshape(shf), arr.shape)
        res["evals"] += int(arr.size)
        res["nontrivial"] += int(arr.size)
        if not np.all(np.abs(arr - want) <= 32 * EPS * (np.abs(want) + 1)):
            add("linear_exact", "linearMean", "field linear in coordinate %d is not reproduced at the face positions" % ax)


def _locality_part(g, res):
    F = res["findings"]
    base = U.generic_array(g.fshape, tag=77)
    u = U.generic_face(g.mesh, tag=79, signed=True)
    fns = [(n, getattr(pf, n)) for n in MEANS] + [("upwindMean", lambda p: pf.upwindMean(p, u))]
    seen = set()
    for name, fn in fns:
        ref = g.face_arrays(fn(g.cell(base)))
        for j in range(g.n):
            c = g.cell_of_flat(j)
            fld = base.copy()
            fld[c] = base[c] * 3.0 + 1.0
            arrs = g.face_arrays(fn(g.cell(fld)))
            for ax in range(g.d):
                changed = arrs[ax] != ref[ax]
                res["evals"] += int(changed.size)
                # faces adjacent to cell c along ax: idx[ax] in {c[ax]-1, c[ax]}, transverse idx = c-1
                allowed = np.zeros_like(changed)
                tr_ok = all(1 <= c[a] <= g.dims[a] for a in range(g.d) if a != ax)
                if tr_ok:
                    for kf in (c[ax] - 1, c[ax]):
                        if 0 <= kf <= g.dims[ax]:
                            idx = [c[a] - 1 for a in range(g.d)]
                            idx[ax] = kf
                            allowed[tuple(idx)] = True
                res["nontrivial"] += int(changed.size)
                bad = changed & ~allowed
                if bad.any():
                    k = "C11:locality:%s:%dD:axis=%d" % (name, g.d, ax)
                    if k in seen:
                        continue
                    seen.add(k)
                    i = tuple(int(x) for x in np.argwhere(bad)[0])
                    F.append({"key": k, "msg": "%s on %s: face axis %d %s changes when the non-adjacent cell %s is perturbed"
                                               % (name, U.spec_id(g.spec), ax, list(i), list(c)),
                              "detail": {"grid": U.spec_id(g.spec), "cell": list(c), "face": [ax, list(i)]}})
                # the two adjacent faces must actually depend on the cell (otherwise the mean ignores it)
                if tr_ok and name != "upwindMean":
                    for kf in (c[ax] - 1, c[ax]):
                        if 0 <= kf <= g.dims[ax]:
                            idx = [c[a] - 1 for a in range(g.d)]
                            idx[ax] = kf
                            if not changed[tuple(idx)]:
                                k = "C11:insensitive:%s:%dD:axis=%d" % (name, g.d, ax)
                                if k not in seen:
                                    seen.add(k)
                                    F.append({"key": k, "msg": "%s on %s: face axis %d %s does not depend on its adjacent cell %s"
                                                               % (name, U.spec_id(g.spec), ax, idx, list(c)), "detail": {}})


def _upwind_big_part(g, res):
    _upwind_part(g, res, big=True)


def _upwind_part(g, res, big=False):
    F = res["findings"]
    base = U.generic_array(g.fshape, tag=81, signed=True)
    phi = g.cell(base)
    seen = set()
    # one face at a time with u in {+1, -1, 0} on it and a generic non-zero velocity elsewhere,
    # plus the three global patterns
    gen = g.face_arrays(U.generic_face(g.mesh, tag=83, signed=True))

    def want(ax, idx, uf):
        lo, hi = _adj(g, ax, idx)
        a, b = base[lo], base[hi]
        if uf == 0:
            return 0.5 * (a + b)
        if uf > 0:
            return 0.5 * (a + b) if idx[ax] == 0 else a          # inflow through the low boundary
        return 0.5 * (a + b) if idx[ax] == g.dims[ax] else b     # inflow through the high boundary
    pats = []
    for (ax, idx) in (g.faces if not big else []):
        for val in (1.0, -1.0, 0.0):
            arrs = [a.copy() for a in gen]
            arrs[ax][idx] = val
            pats.append(arrs)
    pats += [[np.abs(a) for a in gen], [-np.abs(a) for a in gen], [np.zeros_like(a) for a in gen], gen]
    # every combination of flow directions per axis (forward along one axis, backward or none along another)
    pats += [[s_ * np.abs(a) for s_, a in zip(sg, gen)] for sg in U.axis_sign_patterns(g.d)]
    if big:     # many cells: checkerboards of +, -, 0
        for k in (2, 3):
            pats.append([np.where(np.indices(a.shape).sum(axis=0) % k == 0, np.abs(a), np.where(np.indices(a.shape).sum(axis=0) % k == 1, -np.abs(a), 0.0))
                         for a in gen])
    # velocities of very small / very large magnitude (creeping flow in SI units): only the sign counts
    for mag in (2.0 ** -40, 2.0 ** -80, 2.0 ** 50, 5e-324):
        pats += [[a * mag if mag > 1e-300 else np.sign(a) * mag for a in gen],
                 [np.abs(a) * mag if mag > 1e-300 else np.abs(np.sign(a)) * mag for a in gen]]
    # every pattern is evaluated twice: on a fresh velocity object, and on one long-lived velocity
    # object whose components are overwritten in place between the calls (an in-place edit of the
    # velocity must be honoured by the next call)
    shared = U.face_from_arrays(g.mesh, [np.ones_like(a) for a in gen])
    runs = []
    for arrs in pats:
        runs.append(("fresh", arrs, U.face_from_arrays(g.mesh, arrs)))
    for arrs in pats:
        runs.append(("inplace", arrs, None))
    for mode, arrs, uobj in runs:
        if uobj is None:
            for ax in range(g.d):
                getattr(shared, U.COMP[ax])[...] = arrs[ax]
            uobj = shared
        got = g.face_arrays(pf.upwindMean(phi, uobj))
        res["evals"] += len(g.faces)
        for (ax, idx) in g.faces:
            w = want(ax, idx, arrs[ax][idx])
            res["nontrivial"] += 1
            if not _close(got[ax][idx], w, ulps=4):
                uf = arrs[ax][idx]
                kind = "zero" if uf == 0 else ("inflow_boundary" if ((uf > 0 and idx[ax] == 0) or (uf < 0 and idx[ax] == g.dims[ax])) else
                                                ("outflow_boundary" if g.is_bface(ax, idx) else "interior"))
                k = "C11:upwindMean:%s:%dD:axis=%d%s" % (kind, g.d, ax, ":velocity_edited_in_place" if mode == "inplace" else "")
                if k in seen:
                    continue
                seen.add(k)
                F.append({"key": k, "msg": "upwindMean on %s: face axis %d %s with u=%g is %.15g, expected %.15g (%s)"
                                           % (U.spec_id(g.spec), ax, list(idx), uf, got[ax][idx], w, kind), "detail": {}})


def _lift_part(g, res):
    """1-D == N-D on lifted line fields over {0,1,2,4}, zeros included."""
    F = res["findings"]
    sz = _sizes(g)
    seen = set()
    fc = U.spec_faces(g.spec)
    for ax in range(g.d):
        m1 = pf.Grid1D(np.asarray(fc[ax], dtype=float))
        n = g.fshape[ax]
        for line in itertools.product((0.0, 1.0, 2.0, 4.0), repeat=n):
            line = np.array(line)
            sh = [1] * g.d
            sh[ax] = n
            fld = np.broadcast_to(line.reshape(sh), g.fshape)
            p1 = pf.CellVariable(m1, line.copy())
            pN = g.cell(fld)
            for name in MEANS:
                fn = getattr(pf, name)
                v1 = np.asarray(fn(p1)._xvalue, dtype=float)
                vN = g.face_arrays(fn(pN))[ax]
                res["evals"] += 1
                res["nontrivial"] += 1
                # reference value (decides which side is wrong when they differ)
                shf = [1] * g.d
                shf[ax] = n - 1
                want = np.array([ref_mean(name, line[k], line[k + 1], sz[ax][k], sz[ax][k + 1]) for k in range(n - 1)])
                wantN = np.broadcast_to(want.reshape(shf), vN.shape)
                okN = np.all(np.abs(vN - wantN) <= 16 * EPS * np.abs(wantN))      # NaN -> False
                ok1 = np.all(np.abs(v1 - want) <= 16 * EPS * np.abs(want))
                if not (okN and ok1):
                    zeros = "two_adjacent_zeros" if any(line[k] == 0 and line[k + 1] == 0 for k in range(n - 1)) else \
                        ("zeros" if np.any(line == 0) else "positive")
                    k = "C11:lift:%s:%dD:%s" % (name, g.d if not okN else 1, zeros)
                    if k in seen:
                        continue
                    seen.add(k)
                    F.append({"key": k, "msg": "%s of the line field %s along axis %d of %s: %d-D gives %s, 1-D gives %s, weighted means are %s"
                                               % (name, line.tolist(), ax, U.spec_id(g.spec), g.d,
                                                  np.moveaxis(vN, ax, 0).reshape(n - 1, -1)[:, 0].tolist(), v1.tolist(), want.tolist()),
                              "detail": {"grid": U.spec_id(g.spec), "line": line.tolist(), "axis": ax}})


def run_case(case):
    g = Grid(case["grid"])
    res = {"evals": 0, "nontrivial": 0, "findings": [], "outcomes": {}}
    part = case["part"]
    {"formula": _formula_part, "locality": _locality_part, "upwind": _upwind_part, "lift": _lift_part,
     "upwind_big": _upwind_big_part}[part](g, res)
    res["outcomes"] = {"%s:%s" % (part, "ok" if not res["findings"] else "viol"): 1}
    res["sample"] = {"grid": U.spec_id(g.spec), "part": part}
    return res
