"""C16 - unsupported requests fail loudly with the documented error, valid ones never do.

Engine D: complete tables.  Expected exception types are the ones the code's own `raise`
statements and docstrings document: AttributeError (foreign label), ValueError (radial
periodic, bad initial shape), TypeError (constructor arity, non-array BC coefficients,
unknown equation term).
"""
import itertools

import numpy as np

from ..env import pf
from .. import universe as U
from . import labels as LBL

ID = "C16"
LEVEL = "model_checking"
RULE = ("complete tables: 9 classes x {3 mesh holders x 6 coordinate labels (get); 6 component labels (get and set)}; "
        "every non-empty subset of axes x {left,right,both} periodic flags x 4 operations; 13 initial-value shape "
        "families x 9 classes x 2 shapes; constructor arity 0..7 x {faces, (N,L)} x N in 1..4; 8 bad BC-coefficient kinds; "
        "14 bad / 6 valid equation-term kinds x 9 classes; all public builders on N in {1,2,3}^d; every table row counts as "
        "one distinct non-trivial case")
ASSUMPTIONS = ["documented exception types taken from the library's own raise statements/docstrings",
               "the 6-argument direct-initialisation overload of the 1-D/2-D mesh classes is not an arity error"]


def bounds(tier):
    return {"constructor_N": "1..4", "arity": "0..7", "builder_shapes": "{1,2,3}^d (3-D quick: 6 shapes)",
            "non_array_coefficient_kinds": 21}


def cases(tier):
    out = []
    for cls in U.CLASSES:
        for k in ("mesh_labels", "face_labels", "periodic", "init_shapes", "arity", "terms"):
            out.append({"kind": k, "cls": cls})
        for shape in U.shapes(U.dim(cls), tier):
            out.append({"kind": "builders", "cls": cls, "shape": list(shape)})
    out.append({"kind": "bcface"})
    return out


def _exc(f):
    try:
        f()
        return None
    except Exception as e:  # noqa: BLE001
        return e


def _expect(res, key, what, exc, want):
    """want: exception class or None (= must be accepted)."""
    res["evals"] += 1
    res["nontrivial"] += 1
    if want is None:
        if exc is not None:
            res["findings"].append({"key": key, "msg": "%s must be accepted but raised %s: %s"
                                    % (what, type(exc).__name__, str(exc)[:120]), "detail": {}})
    else:
        if exc is None or type(exc) is not want and not (isinstance(exc, want) and want is not Exception):
            res["findings"].append({"key": key, "msg": "%s must raise %s but %s"
                                    % (what, want.__name__, "was accepted" if exc is None else
                                       "raised %s: %s" % (type(exc).__name__, str(exc)[:120])), "detail": {}})
        elif type(exc) is not want:
            # subclass of the documented type: accept (e.g. a more specific error)
            pass


def _periodic(cls, res):
    d = U.dim(cls)
    mesh = U.make_mesh(U.spec(cls, (2, 3, 2)[:d], ("U",) * d, 1))
    kinds = U.AXES[cls]
    one = pf.CellVariable(mesh, 1.0)
    terms = [pf.linearSourceTerm(one), pf.constantSourceTerm(one)]
    for r in range(1, d + 1):
        for axes in itertools.combinations(range(d), r):
            for mode in itertools.product(("lo", "hi", "both"), repeat=len(axes)):
                def setflags(bc):
                    for ax, m in zip(axes, mode):
                        lo, hi = U.SIDES[ax]
                        if m in ("lo", "both"):
                            getattr(bc, lo).periodic = True
                        if m in ("hi", "both"):
                            getattr(bc, hi).periodic = True
                radial = any(kinds[ax] == "rad" for ax in axes)
                want = ValueError if radial else None
                tag = "%s:axes=%s" % (cls, "".join(str(a) for a in axes))
                desc = "periodic flags on axes %s (%s) of %s" % (list(axes), list(mode), cls)

                def f_construct():
                    bc = pf.BoundaryConditions(mesh)
                    setflags(bc)
                    pf.CellVariable(mesh, 1.0, bc)

                def f_apply():
                    v = pf.CellVariable(mesh, 1.0)
                    setflags(v.BCs)
                    v.apply_BCs()

                def f_solve():
                    v = pf.CellVariable(mesh, 1.0)
                    setflags(v.BCs)
                    pf.solvePDE(v, terms)

                def f_bcterm():
                    bc = pf.BoundaryConditions(mesh)
                    setflags(bc)
                    pf.boundaryConditionsTerm(bc)
                def f_shared():
                    # the request arrives through another variable sharing the BC object (the result of
                    # solveExplicitPDE, which never builds a boundary term itself) and is consumed there
                    # first; the next solve of the original variable must still fail loudly
                    v = pf.CellVariable(mesh, 1.0)
                    w = pf.solveExplicitPDE(v, 0.125, np.zeros(int(np.prod([k + 2 for k in mesh.dims]))))
                    setflags(w.BCs)
                    try:
                        w.apply_BCs()
                    except ValueError:
                        raise
                    pf.solvePDE(v, terms)

                def f_replaced_face():
                    # the periodic request arrives as a replaced BoundaryFace object (no dirty flag raised)
                    v = pf.CellVariable(mesh, 1.0)
                    for ax, m in zip(axes, mode):
                        lo, hi = U.SIDES[ax]
                        for side, on in ((lo, m in ("lo", "both")), (hi, m in ("hi", "both"))):
                            if on:
                                o = getattr(v.BCs, side)
                                setattr(v.BCs, side, pf.boundary.BoundaryFace(np.array(o._a), np.array(o._b), np.array(o._c), periodic=True))
                    v.apply_BCs()
                    pf.solvePDE(v, terms)
                for nm, f in (("construct", f_construct), ("apply_BCs", f_apply), ("solvePDE", f_solve),
                              ("boundaryConditionsTerm", f_bcterm), ("solvePDE_after_shared_refresh", f_shared),
                              ("replaced_face", f_replaced_face)):
                    _expect(res, "C16:periodic_%s:%s:%s" % ("radial" if radial else "valid", nm, tag),
                            "%s with %s" % (nm, desc), _exc(f), want)


def _init_shapes(cls, res):
    d = U.dim(cls)
    for shape in ((2, 3, 4)[:d], (3, 2, 2)[:d]):
        mesh = U.make_mesh(U.spec(cls, shape, ("U",) * d, 1))
        sp2 = tuple(s + 2 for s in shape)
        fam = {
            "scalar": (2.5, None), "int": (2, None), "size1": (np.array([2.5]), None), "0d": (np.array(2.5), None),
            "dims": (np.arange(np.prod(shape), dtype=float).reshape(shape), None),
            "dims+2": (np.arange(np.prod(sp2), dtype=float).reshape(sp2), None),
            "dims+1": (np.ones(tuple(s + 1 for s in shape)), ValueError),
            "dims+3": (np.ones(tuple(s + 3 for s in shape)), ValueError),
            "rank+1": (np.ones(tuple(shape) + (2,)), ValueError),
            "empty": (np.array([]), ValueError),
        }
        if d > 1:
            fam["flat"] = (np.ones(int(np.prod(shape))), ValueError)
            fam["transposed"] = (np.ones(tuple(shape)[::-1]), ValueError if tuple(shape)[::-1] != tuple(shape) else None)
            fam["rank-1"] = (np.ones(shape[:-1]) if len(shape[:-1]) else np.ones(3), ValueError)
            for mask in itertools.product((0, 2), repeat=d):
                if 0 < sum(mask) < 2 * d:       # ghost cells along some axes only
                    fam["mixed_ghost%s" % (list(mask),)] = (np.ones(tuple(s_ + m_ for s_, m_ in zip(shape, mask))), ValueError)
        for name, (val, want) in fam.items():
            for with_bc in (False, True):
                def f():
                    if with_bc:
                        v = pf.CellVariable(mesh, val, pf.BoundaryConditions(mesh))
                    else:
                        v = pf.CellVariable(mesh, val)
                    if want is None and v.value.shape != tuple(shape):
                        raise AssertionError("value has shape %s" % (v.value.shape,))
                _expect(res, "C16:init_shape:%s:%s" % (name, cls),
                        "CellVariable(%s%s, initial value of family %r)" % (cls, list(shape), name), _exc(f), want)


def _arity(cls, res):
    d = U.dim(cls)
    kinds = U.AXES[cls]
    ctor = getattr(pf, cls)
    for k in range(0, 8):
        if k == 6 and d < 3:
            continue          # direct-initialisation overload (dims, cellsize, ...)
        # six arrays is the direct-initialisation overload (3-D); 2d arguments is the arity of the (N, L)
        # form, so arrays there are a type error of that form, not an arity error
        skip_faces = (k == 6) or (k == 2 * d)
        for N in (1, 2, 3, 4):
            farrs = [U.faces(kinds[i % d], N, "I", 1) for i in range(k)]
            want = None if k == d else TypeError
            if not skip_faces:
                _expect(res, "C16:arity:%s:faces:%d" % (cls, k), "%s(%d face arrays, N=%d)" % (cls, k, N),
                        _exc(lambda: ctor(*farrs)), want)
            # (N, L) form needs 2d arguments: d ints then d floats
            nl = [N] * min(k, d) + [1.0] * max(0, k - d)
            if k == 2 * d:
                want = None
            elif k == d:
                continue      # d ints alone is a type error of the faces form, not an arity error
            else:
                want = TypeError
            _expect(res, "C16:arity:%s:NL:%d" % (cls, k), "%s(%d scalar arguments, N=%d)" % (cls, k, N),
                    _exc(lambda: ctor(*nl)), want)


def _bcface(res):
    BF = pf.boundary.BoundaryFace
    a = np.array([1.0])
    good = {"arrays": (a, a.copy(), a.copy()), "arrays2d": (np.ones((2, 2)),) * 3, "empty": (np.array([]),) * 3}
    bad = {"lists": ([1.0], [0.0], [0.0]), "scalars": (1.0, 0.0, 0.0), "ints": (1, 0, 0),
           "mixed_a": (1.0, a, a), "mixed_b": (a, [0.0], a), "mixed_c": (a, a, None),
           "matrix": (np.matrix([1.0]),) * 3, "none": (None,) * 3, "tuple": ((1.0,),) * 3, "str": ("a", "b", "c")}
    for nm, args in good.items():
        _expect(res, "C16:bcface:%s" % nm, "BoundaryFace(%s)" % nm, _exc(lambda: BF(*args)), None)
    for nm, args in bad.items():
        _expect(res, "C16:bcface:%s" % nm, "BoundaryFace(%s)" % nm, _exc(lambda: BF(*args)), TypeError)
    # every kind of non-array object in every single position (the other two proper arrays) and in all three
    arr = np.array([1.0, 2.0])
    nonarrays = {"float": 1.0, "int": 1, "bool": True, "None": None, "list": [1.0], "tuple": (1.0,), "str": "a",
                 "complex": 1j, "np.float64": np.float64(1.0), "np.float32": np.float32(1.0), "np.int64": np.int64(1),
                 "np.bool_": np.bool_(True), "element arr[0]": arr[0], "np.max(arr)": np.max(arr),
                 "memoryview": memoryview(arr), "range": range(2), "dict": {}, "set": {1.0}, "generator": (x for x in ()),
                 "np.matrix": np.matrix([1.0]), "cellvariable-like object": object()}
    for nm, obj in nonarrays.items():
        for pos in range(3):
            args = [a.copy(), a.copy(), a.copy()]
            args[pos] = obj
            _expect(res, "C16:bcface:nonarray:%s" % nm, "BoundaryFace with %s as coefficient %s" % (nm, "abc"[pos]),
                    _exc(lambda: BF(*args)), TypeError)
        _expect(res, "C16:bcface:nonarray:%s" % nm, "BoundaryFace with %s as all three coefficients" % nm,
                _exc(lambda: BF(obj, obj, obj)), TypeError)
    # and a face built from a non-array must never end up in a solvable problem
    for cls in U.CLASSES:
        d = U.dim(cls)
        mesh = U.make_mesh(U.spec(cls, (2, 1, 3)[:d], ("I",) * d, 1))
        for nm in ("np.float64", "element arr[0]", "float"):
            def attempt():
                bc = pf.BoundaryConditions(mesh)
                o = bc.right
                bc.right = BF(np.array(o._a), nonarrays[nm], np.array(o._c))
                v = pf.CellVariable(mesh, 1.0, bc)
                pf.solvePDE(v, [pf.linearSourceTerm(pf.CellVariable(mesh, 1.0)), pf.constantSourceTerm(pf.CellVariable(mesh, 1.0))])
            _expect(res, "C16:bcface:nonarray_solved:%s" % nm, "a problem on %s whose right face was given %s as coefficient b" % (cls, nm),
                    _exc(attempt), TypeError)


def _terms(cls, res):
    d = U.dim(cls)
    mesh = U.make_mesh(U.spec(cls, (2, 1, 3)[:d], ("I",) * d, 1))
    one = pf.CellVariable(mesh, 1.0)
    M = pf.linearSourceTerm(one)
    v = pf.constantSourceTerm(one)
    n = v.size
    ST = pf.utilities.SignedTuple
    valid = {"matrix": M, "vector": v, "pair": (M, v), "neg_matrix": -M, "scaled_vector": 2.0 * v,
             "signed_tuple": ST((M, v)), "neg_signed_tuple": -ST((M, v)),
             "transient": pf.transientTerm(one, 0.5, 1.0), "diffusion": pf.diffusionTerm(pf.FaceVariable(mesh, 1.0))}
    bad = {"str": "abc", "None": None, "float": 1.0, "int": 3, "list": [M, v], "dict": {}, "3d_array": np.zeros((2, 2, 2)),
           "0d_array": np.array(1.0), "1-tuple": (M,), "3-tuple": (M, v, v), "swapped_pair": (v, M), "pair_MM": (M, M),
           "pair_vv": (v, v), "empty_tuple": (), "cellvariable": one, "facevariable": pf.FaceVariable(mesh, 1.0),
           "pair_with_None": (M, None)}
    for nm, t in valid.items():
        _expect(res, "C16:term_valid:%s:%s" % (nm, cls), "solvePDE on %s with a term of kind %s" % (cls, nm),
                _exc(lambda: pf.solvePDE(pf.CellVariable(mesh, 1.0), [M, v, t])), None)
    # the unknown object at every position of lists made of the documented kinds: matrix + vector, with a genuine
    # (matrix, vector) pair, with a transient term, and alone
    contexts = {"M,v": [M, v], "pair,M": [(M, v), M], "transient,v,M": [pf.transientTerm(one, 0.5, 1.0), v, M], "alone": []}
    for nm, t in bad.items():
        for cname, ctxl in contexts.items():
            for pos in range(len(ctxl) + 1):
                lst = list(ctxl)
                lst.insert(pos, t)
                _expect(res, "C16:term_bad:%s" % nm, "solvePDE on %s with a term of kind %s at position %d of [%s]" % (cls, nm, pos, cname),
                        _exc(lambda: pf.solvePDE(pf.CellVariable(mesh, 1.0), lst)), TypeError)
    # an unknown term must not have modified the variable before failing
    phi = pf.CellVariable(mesh, U.generic_array(tuple(int(k) for k in mesh.dims)))
    before = np.array(phi._value)
    _exc(lambda: pf.solvePDE(phi, [M, v, "abc"]))
    res["evals"] += 1
    if not np.array_equal(before, np.asarray(phi._value)):
        res["findings"].append({"key": "C16:term_bad:modified_variable", "msg": "solvePDE changed the variable before rejecting an unknown term",
                                "detail": {}})


def _builders(cls, shape, res):
    d = U.dim(cls)
    for sp in ("U", "I"):
        for org in (0, 1):
            s = U.spec(cls, shape, (sp,) * d, org)
            mesh = U.make_mesh(s)
            tag = "%s" % cls

            def all_calls():
                D = pf.FaceVariable(mesh, 1.0)
                u = U.generic_face(mesh, tag=1, signed=True)
                phi = pf.CellVariable(mesh, U.generic_array(tuple(int(k) for k in mesh.dims)))
                calls = {
                    "diffusionTerm": lambda: pf.diffusionTerm(D),
                    "convectionTerm": lambda: pf.convectionTerm(u),
                    "convectionUpwindTerm": lambda: pf.convectionUpwindTerm(u),
                    "convectionUpwindTerm2": lambda: pf.convectionUpwindTerm(u, u),
                    "convectionTVDupwindRHSTerm": lambda: pf.convectionTVDupwindRHSTerm(u, phi, pf.fluxLimiter("Koren")),
                    "linearSourceTerm": lambda: pf.linearSourceTerm(phi),
                    "constantSourceTerm": lambda: pf.constantSourceTerm(phi),
                    "transientTerm": lambda: pf.transientTerm(phi, 0.1, 1.0),
                    "transientTerm_alpha": lambda: pf.transientTerm(phi, 0.1, phi),
                    "gradientTerm": lambda: pf.gradientTerm(phi),
                    "divergenceTerm": lambda: pf.divergenceTerm(u),
                    "linearMean": lambda: pf.linearMean(phi), "arithmeticMean": lambda: pf.arithmeticMean(phi),
                    "geometricMean": lambda: pf.geometricMean(phi), "harmonicMean": lambda: pf.harmonicMean(phi),
                    "upwindMean": lambda: pf.upwindMean(phi, u),
                    "boundaryConditionsTerm": lambda: pf.boundaryConditionsTerm(pf.BoundaryConditions(mesh)),
                    "cellLocations": lambda: pf.cellLocations(mesh), "faceLocations": lambda: pf.faceLocations(mesh),
                    "solvePDE": lambda: pf.solvePDE(pf.CellVariable(mesh, 1.0), [pf.transientTerm(phi, 0.1), -pf.diffusionTerm(D)]),
                    "solveExplicitPDE": lambda: pf.solveExplicitPDE(phi, 0.1, pf.divergenceTerm(D * pf.gradientTerm(phi))),
                    "domainIntegral": lambda: phi.domainIntegral(),
                    "plotprofile": lambda: phi.plotprofile(),
                    "copy": lambda: phi.copy(),
                }
                return calls
            for nm, f in all_calls().items():
                _expect(res, "C16:builder_rejects_valid:%s:%s" % (nm, tag),
                        "%s on %s" % (nm, U.spec_id(s)), _exc(f), None)


def run_case(case):
    res = {"evals": 0, "nontrivial": 0, "findings": [], "outcomes": {}}
    k = case["kind"]
    if k == "mesh_labels":
        LBL.check_mesh_labels(case["cls"], res, "C16")
    elif k == "face_labels":
        LBL.check_face_labels(case["cls"], res, "C16")
    elif k == "periodic":
        _periodic(case["cls"], res)
    elif k == "init_shapes":
        _init_shapes(case["cls"], res)
    elif k == "arity":
        _arity(case["cls"], res)
    elif k == "bcface":
        _bcface(res)
    elif k == "terms":
        _terms(case["cls"], res)
    elif k == "builders":
        _builders(case["cls"], tuple(case["shape"]), res)
    res["outcomes"] = {"%s:%s" % (k, "ok" if not res["findings"] else "viol"): 1}
    res["sample"] = dict(case)
    return res
