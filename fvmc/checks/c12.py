"""C12 - time stepping: steady states are fixed points; limits dt->0 and dt->inf.

Engine B + short histories.  Per (class, shape, spacing, BC set-up, spatial term subset,
alpha scalar / per cell):
 (i)   residual form  alpha*(new-old)/dt + A*new = b on every interior cell,
 (ii)  the steady solution is reproduced unchanged by a transient step of every dt of a
       12-decade alphabet,
 (iii) dt = 2^40 gives the steady solution, dt = 2^-40 the old field,
 (iv)  solveExplicitPDE(old, dt, RHS) == old + dt*RHS on the interior with ghosts re-imposed,
       clean input byte-identical, result a new object,
 (v)   |explicit - implicit| shrinks by >= 3.5 per halving of dt (O(dt^2)),
 (vi)  all sequences over {implicit, explicit}^3: every step satisfies (i) resp. (iv),
 (viii) all three-step time loops over the alphabet of _loop_part (coefficient object kept / edited /
       advanced / replaced between steps, dt kept or halved, term list rebuilt or reused).
"""
import itertools

import numpy as np

from ..env import pf, EPS
from .. import universe as U
from ..opkit import Grid, dense
from .c15 import arrays_of

ID = "C12"
LEVEL = "model_checking"
RULE = ("configurations = grid instance x BC set-up x spatial term subset x alpha kind, each with the full dt alphabet "
        "(12 decades + 2^+-40) and all 8 implicit/explicit step sequences of length 3; one configuration x dt = one "
        "distinct non-trivial case")
ASSUMPTIONS = ["tolerance 64*eps*cond(row-equilibrated M)*scale for quantities that pass through a solve; residual form uses the "
               "reported array (ghost cells re-imposed from the BCs)", "steady problems are made non-singular by Dirichlet/Robin "
               "sides or a positive linear sink"]
DTS = [10.0 ** k for k in range(-6, 6)]
SHAPES = {1: [(3,)], 2: [(2, 3)], 3: [(2, 2, 2)]}
SHAPES_T = {1: [(1,), (2,), (3,)], 2: [(1, 1), (2, 3), (3, 2)], 3: [(1, 1, 1), (2, 2, 2), (2, 1, 3)]}
TERMSETS = [("D",), ("D", "U"), ("D", "C"), ("D", "B"), ("D", "U", "B", "G")]
SETUPS = ["robin", "mixed", "periodic"]


def bounds(tier):
    return {"dt": [str(x) for x in DTS] + ["2^40", "2^-40"], "sequence_length": 3, "termsets": ["+".join(t) for t in TERMSETS],
            "setups": SETUPS, "shapes": str(SHAPES if tier == "quick" else SHAPES_T)}


def cases(tier):
    out = []
    templates = ["U", "I"] if tier == "quick" else ["U", "G", "I"]
    for cls in U.CLASSES:
        d = U.dim(cls)
        for shape in (SHAPES if tier == "quick" else SHAPES_T)[d]:
            for t in templates:
                for org in (0, 1):
                    for setup in SETUPS:
                        sp = [t] * d
                        if setup == "periodic":
                            # equal end cells on the periodic axis (unequal ends: recorded finding of C03/C01)
                            pax = U.periodic_axis(cls, shape, org)
                            if pax is not None:
                                sp[pax] = "U"
                        for part in ("implicit", "explicit", "loop"):
                            out.append({"grid": U.spec(cls, shape, tuple(sp), org), "setup": setup, "part": part})
    return out


def weight(case):
    return int(np.prod([k + 2 for k in case["grid"]["shape"]])) * (3 if case["part"] in ("implicit", "loop") else 1)


def make_bc(g, setup):
    bc = pf.BoundaryConditions(g.mesh)
    kinds = U.AXES[g.cls]
    pax = U.periodic_axis(g.cls, g.dims, g.spec["org"]) if setup == "periodic" else None
    t = 0
    for ax in range(g.d):
        for hi, side in enumerate(U.SIDES[ax]):
            bf = getattr(bc, side)
            t += 1
            if ax == pax:
                # either face declares the axis periodic: both / low only / high only, chosen from the grid
                if U.flag_mode(sum(g.dims), g.spec["org"], len(g.cls)) in ("both", ("lo", "hi")[hi]):
                    bf.periodic = True
            elif setup == "robin":
                bf.a = 1.0
                bf.b = (64.0 + t) * (1.0 if hi else -1.0)
                bf.c = 0.5 * t * (1.0 if hi else -1.0)
            elif setup == "mixed":
                if not hi:
                    bf.fixedValue(1.0 + 0.25 * t)
            else:
                bf.fixedValue(0.5 * t)
    return bc


def spatial(g, ts, D, u, beta, gamma):
    """(matrix terms, vector terms) of A*phi = b for the term subset."""
    Ms, vs = [], []
    if "D" in ts:
        Ms.append(-pf.diffusionTerm(D))
    if "U" in ts:
        Ms.append(pf.convectionUpwindTerm(u))
    if "C" in ts:
        Ms.append(pf.convectionTerm(u))
    if "B" in ts:
        Ms.append(pf.linearSourceTerm(beta))
    if "G" in ts:
        vs.append(pf.constantSourceTerm(gamma))
    return Ms, vs


def eq_cond(M):
    """Condition number of the row-equilibrated matrix."""
    M = np.asarray(M, dtype=float)
    if not np.all(np.isfinite(M)):
        return np.inf
    rs = np.max(np.abs(M), axis=1)
    rs[rs == 0] = 1.0
    try:
        return float(np.linalg.cond(M / rs[:, None], np.inf))
    except Exception:  # noqa: BLE001
        return np.inf


def total_matrix(phi, eq):
    M = dense(phi._BCsTerm[0])
    for t in eq:
        if isinstance(t, tuple):
            M = M + dense(t[0])
        elif getattr(t, "ndim", 0) == 2:
            M = M + dense(t)
    return M


def snap(v):
    out = []
    arrays_of(v, "v", out)
    return [(n, a.tobytes()) for n, a in out if not n.startswith("v.domain")] + \
        [bool(v._value.modified), bool(v.BCs.modified), hasattr(v, "_BCsTerm")]


ALPHA_ACTIONS = ["keep", "edit", "edit_ppm", "edit_apply", "assign", "advance", "replace"]
DT_PATTERNS = [(1, 1, 1), (1, 2, 2), (1, 1, 2), (1, 2, 1)]


def _loop_part(g, case, res, add, residual, D, u, beta, gamma):
    """(viii) time loops as users write them: three backward-Euler steps on ONE solution variable with ONE
    coefficient object alpha (scalar, ndarray or CellVariable) that is kept, edited in place (by 50% or by a
    few ppm), edited and refreshed with apply_BCs, assigned through .value, advanced by its own solvePDE, or
    replaced between the steps; dt kept or halved; the term list rebuilt for every step or one list object
    reused with its transient entry replaced.  All sequences.  Every step must satisfy the residual form
    with the alpha and dt in force at that step and equal the step of a freshly built problem."""
    setup = case["setup"]
    ts = ("D", "U", "B", "G")
    Ms, vs = spatial(g, ts, D, u, beta, gamma)
    old0 = U.generic_array(g.dims, tag=421, signed=True)
    a0 = 0.5 + U.generic_array(g.dims, tag=423) / 8.0
    a_alt = 0.75 + U.generic_array(g.dims, tag=425) / 4.0
    dt0 = 2.0 ** -6

    def fresh_step(oldvals, avals, dt, bcsrc):
        ref = pf.CellVariable(g.mesh, np.array(oldvals, dtype=float), make_bc(g, setup))
        a = avals if np.isscalar(avals) else pf.CellVariable(g.mesh, np.array(avals, dtype=float))
        eq = [pf.transientTerm(ref, dt, a)] + Ms + vs
        kap = eq_cond(total_matrix(ref, eq))
        pf.solvePDE(ref, eq)
        return np.asarray(ref.value, dtype=float).copy(), kap

    akinds = ["default", "scalar", "ndarray", "cellvar"]
    if g.d > 1:     # layered media: alpha varies along one axis only (constant along the first / along the last axis)
        akinds += ["cellvar_layered_last", "cellvar_layered_first"]
    for akind in akinds:
        acts = list(itertools.product(ALPHA_ACTIONS, repeat=2)) if akind == "cellvar" else [("keep", "keep"), ("replace", "edit")]
        if akind == "default" or akind.startswith("cellvar_layered"):
            acts = [("keep", "keep")]
        for (act1, act2) in acts:
            for dpat in DT_PATTERNS:
                for reuse_list in (False, True, "sources_first"):
                    phi = pf.CellVariable(g.mesh, old0.copy(), make_bc(g, setup))
                    if akind == "default":          # transientTerm(phi, dt): the documented default alpha = 1
                        alpha = 1.0
                    elif akind == "scalar":
                        alpha = 1.5
                    elif akind == "ndarray":
                        alpha = a0.copy()
                    elif akind.startswith("cellvar_layered"):
                        alpha = pf.CellVariable(g.mesh, 0.5 + U.layered_array(g.dims, g.d - 1 if akind.endswith("last") else 0, tag=427) / 8.0)
                    else:
                        alpha = pf.CellVariable(g.mesh, a0.copy())
                    eqlist = None
                    label = "alpha %s, between steps %s/%s, dt pattern %s, %s" % (
                        akind, act1, act2, "/".join("dt" if k == 1 else "dt/2" for k in dpat),
                        {False: "term list rebuilt per step", True: "one reused term list", "sources_first": "reused source vectors first in the list"}[reuse_list])
                    for step in range(3):
                        act = (None, act1, act2)[step]
                        if act in ("edit", "edit_ppm", "edit_apply", "assign", "advance", "replace"):
                            if akind in ("scalar", "default"):
                                alpha = alpha * 1.5
                            elif akind == "ndarray":
                                if act == "replace":
                                    alpha = a_alt.copy()
                                else:
                                    alpha[...] = alpha * 1.5
                            elif act == "edit":
                                alpha.value[...] = np.asarray(alpha.value) * 1.5
                            elif act == "edit_ppm":
                                alpha.value[...] = np.asarray(alpha.value) * (1.0 + 2.0 ** -18)
                            elif act == "edit_apply":
                                alpha.value[...] = np.asarray(alpha.value) * 1.5
                                alpha.apply_BCs()
                            elif act == "assign":
                                alpha.value = np.asarray(alpha.value) * 0.75 + 0.125
                            elif act == "advance":     # alpha is itself a solved field (coupled system)
                                pf.solvePDE(alpha, [pf.transientTerm(alpha, 1.0, 1.0), pf.linearSourceTerm(beta)])
                            elif act == "replace":
                                alpha = pf.CellVariable(g.mesh, a_alt.copy())
                        dt = dt0 / dpat[step]
                        oldv = np.asarray(phi.value, dtype=float).copy()
                        avals = alpha if akind in ("scalar", "default") else (np.array(alpha) if akind == "ndarray" else np.asarray(alpha.value, dtype=float).copy())
                        tt = pf.transientTerm(phi, dt) if akind == "default" else pf.transientTerm(phi, dt, alpha)
                        if reuse_list == "sources_first":
                            # the prebuilt source vectors come first in the list and are reused in every step
                            eq = vs + [tt] + Ms
                        elif reuse_list:
                            if eqlist is None:
                                eqlist = [tt] + Ms + vs
                            else:
                                eqlist[0] = tt
                            eq = eqlist
                        else:
                            eq = [tt] + Ms + vs
                        n_before = len(eq)
                        ids_before = [id(t) for t in eq]
                        vs_before = [np.array(v_) for v_ in vs]
                        ret = pf.solvePDE(phi, eq)
                        if not all(np.array_equal(a_, b_) for a_, b_ in zip(vs_before, vs)):
                            add("loop_terms_modified", "%s: solvePDE changed a source vector it was given (step %d)" % (label, step + 1))
                            break
                        res["evals"] += 1
                        res["nontrivial"] += 1
                        if len(eq) != n_before or [id(t) for t in eq] != ids_before:
                            add("loop_term_list_modified", "%s: solvePDE changed the caller's term list (length %d -> %d)" % (label, n_before, len(eq)))
                        want, kap = fresh_step(oldv, avals, dt, None)
                        if not np.isfinite(kap) or kap * EPS > 1e-6:
                            res["precond_failed"] = res.get("precond_failed", 0) + 1
                            break
                        aobj = avals if np.isscalar(avals) else pf.CellVariable(g.mesh, np.array(avals, dtype=float))
                        r, sc = residual(ret, oldv, dt, aobj, Ms, vs)
                        tolr = 64 * EPS * kap * (np.max(sc) + 1e-300)
                        got = np.asarray(ret.value, dtype=float)
                        tol = 64 * EPS * kap * max(1.0, float(np.max(np.abs(want))))
                        if not np.all(np.abs(r) <= tolr) or not np.all(np.abs(got - want) <= tol):
                            add("loop_step", "%s: step %d differs from the backward-Euler step of a freshly built problem by %.3g "
                                "(residual alpha*(new-old)/dt + A*new - b = %.3g, tolerances %.3g / %.3g)"
                                % (label, step + 1, float(np.max(np.abs(got - want))), float(np.max(np.abs(r))), tol, tolr),
                                alpha=akind, actions=[act1, act2], dt_pattern=list(dpat), reuse_list=reuse_list)
                            break
    res["sample"] = {"grid": U.spec_id(g.spec), "setup": setup, "sequences": (len(ALPHA_ACTIONS) ** 2 + 4) * len(DT_PATTERNS) * 2}


def run_case(case):
    g = Grid(case["grid"])
    res = {"evals": 0, "nontrivial": 0, "findings": [], "outcomes": {}}
    F = res["findings"]
    seen = set()
    setup = case["setup"]
    gid = U.spec_id(g.spec)
    D = U.generic_face(g.mesh, tag=401)
    u = U.generic_face(g.mesh, tag=403, signed=True)
    beta = pf.CellVariable(g.mesh, 0.5 + U.generic_array(g.dims, tag=405) / 16.0)
    gamma = pf.CellVariable(g.mesh, U.generic_array(g.dims, tag=407, signed=True) / 4.0)
    alpha_field = pf.CellVariable(g.mesh, 0.5 + U.generic_array(g.dims, tag=409) / 8.0)
    inner = tuple(slice(1, -1) for _ in range(g.d))
    imask = g.imask

    def add(kind, msg, **det):
        k = "C12:%s:%s" % (kind, g.cls)
        if k not in seen:
            seen.add(k)
            det.update({"grid": gid, "setup": setup})
            F.append({"key": k, "msg": "%s (%s BCs): %s" % (gid, setup, msg), "detail": det})

    def residual(new, old, dt, alpha, Ms, vs):
        """alpha*(new-old)/dt + A*new - b on interior cells, and its scale."""
        fn = np.asarray(new._value, dtype=float).ravel()
        a = np.asarray(alpha.value, dtype=float).ravel() if isinstance(alpha, pf.CellVariable) else alpha * np.ones(int(np.prod(g.dims)))
        r = a * (np.asarray(new.value, dtype=float).ravel() - np.asarray(old, dtype=float).ravel()) / dt
        sc = np.abs(a) * (np.abs(np.asarray(new.value)).ravel() + np.abs(np.asarray(old)).ravel()) / dt
        for M in Ms:
            Md = dense(M)
            r = r + (Md @ fn)[imask]
            sc = sc + (np.abs(Md) @ np.abs(fn))[imask]
        for v in vs:
            r = r - np.asarray(v)[imask]
            sc = sc + np.abs(np.asarray(v))[imask]
        return r, sc

    if case["part"] == "loop":
        _loop_part(g, case, res, add, residual, D, u, beta, gamma)
    elif case["part"] == "implicit":
        for ts in TERMSETS:
            if setup == "periodic" and g.d == 1 and "B" not in ts:
                continue          # fully periodic 1-D steady problem without sink is singular
            Ms, vs = spatial(g, ts, D, u, beta, gamma)
            for akind in ("scalar", "field"):
                alpha = 1.5 if akind == "scalar" else alpha_field
                # steady solution
                st = pf.CellVariable(g.mesh, 0.0, make_bc(g, setup))
                kap_s = eq_cond(total_matrix(st, Ms))
                if not np.isfinite(kap_s) or kap_s * EPS > 1e-7:
                    res["precond_failed"] = res.get("precond_failed", 0) + 1
                    continue
                try:
                    inv_norm = float(np.linalg.norm(np.linalg.inv(total_matrix(st, Ms)), np.inf))
                except Exception:  # noqa: BLE001
                    inv_norm = np.inf
                pf.solvePDE(st, Ms + vs)
                star = np.asarray(st.value, dtype=float).copy()
                sc_star = max(1.0, float(np.max(np.abs(star))))
                old0 = U.generic_array(g.dims, tag=411, signed=True)
                for dt in DTS + [2.0 ** 40, 2.0 ** -40]:
                    res["evals"] += 2
                    res["nontrivial"] += 1
                    # (ii) fixed point
                    phi = pf.CellVariable(g.mesh, star.copy(), make_bc(g, setup))
                    eq = [pf.transientTerm(phi, dt, alpha)] + Ms + vs
                    kap = eq_cond(total_matrix(phi, eq))
                    if not np.isfinite(kap) or kap * EPS > 1e-5:
                        res["precond_failed"] = res.get("precond_failed", 0) + 1
                        continue
                    pf.solvePDE(phi, eq)
                    err = float(np.max(np.abs(np.asarray(phi.value) - star)))
                    if not err <= 64 * EPS * (kap + kap_s) * sc_star:
                        add("steady_not_fixed_point", "terms %s, alpha %s, dt=%g: a transient step from the steady solution moves it by %.3g (tolerance %.3g)"
                            % ("+".join(ts), akind, dt, err, 64 * EPS * (kap + kap_s) * sc_star), terms=list(ts), dt=dt)
                    # (i) residual form from a generic old field
                    phi = pf.CellVariable(g.mesh, old0.copy(), make_bc(g, setup))
                    eq = [pf.transientTerm(phi, dt, alpha)] + Ms + vs
                    ret = pf.solvePDE(phi, eq)
                    r, sc = residual(ret, old0, dt, alpha, Ms, vs)
                    if not np.all(np.abs(r) <= 64 * EPS * kap * (np.max(sc) + 1e-300)):
                        j = int(np.argmax(np.abs(r)))
                        add("residual_form", "terms %s, alpha %s, dt=%g: alpha*(new-old)/dt + A*new - b = %.3g in interior cell #%d (scale %.3g, cond %.3g)"
                            % ("+".join(ts), akind, dt, r[j], j, float(np.max(sc)), kap), terms=list(ts), dt=dt)
                    # (i') the same step from an old field given WITH ghost cells that hold placeholders (NaN, inf): a backward-Euler
                    #      step uses the interior of the old field only
                    if dt in (DTS[3], DTS[8]):
                        for pad in (np.nan, np.inf):
                            fullold = np.full(g.fshape, pad)
                            fullold[inner] = old0
                            phin = pf.CellVariable(g.mesh, fullold, make_bc(g, setup))
                            pf.solvePDE(phin, [pf.transientTerm(phin, dt, alpha)] + Ms + vs)
                            res["evals"] += 1
                            if not np.allclose(np.asarray(phin.value), np.asarray(ret.value), rtol=64 * EPS * kap, atol=64 * EPS * kap * max(1.0, float(np.max(np.abs(np.asarray(ret.value))))), equal_nan=False):
                                add("placeholder_ghosts", "terms %s, alpha %s, dt=%g: the step from an old field whose ghost cells hold %r differs from the step from the same interior values"
                                    % ("+".join(ts), akind, dt, pad), terms=list(ts), dt=dt)
                    # (iii) limits
                    amax = float(np.max(np.asarray(alpha.value))) if isinstance(alpha, pf.CellVariable) else float(alpha)
                    amin = float(np.min(np.asarray(alpha.value))) if isinstance(alpha, pf.CellVariable) else float(alpha)
                    if dt == 2.0 ** 40:
                        # new - steady = -(alpha/dt) (A + alpha/dt)^-1 (steady... ) : first-order bound
                        bound = 4.0 * (amax / dt) * inv_norm * float(np.max(np.abs(star - old0)) + sc_star)
                        if not np.all(np.abs(np.asarray(ret.value) - star) <= bound + 64 * EPS * (kap + kap_s) * sc_star):
                            add("limit_dt_inf", "terms %s, alpha %s: a step with dt=2^40 differs from the steady solution by %.3g"
                                % ("+".join(ts), akind, float(np.max(np.abs(np.asarray(ret.value) - star)))), terms=list(ts))
                    if dt == 2.0 ** -40:
                        # new - old = -(dt/alpha) (A new - b): first-order bound from the summed magnitudes
                        bound = 4.0 * (dt / amin) * float(np.max(sc)) + 64 * EPS * kap * max(1.0, float(np.max(np.abs(old0))))
                        if not np.all(np.abs(np.asarray(ret.value) - old0) <= bound):
                            add("limit_dt_zero", "terms %s, alpha %s: a step with dt=2^-40 differs from the old field by %.3g"
                                % ("+".join(ts), akind, float(np.max(np.abs(np.asarray(ret.value) - old0)))), terms=list(ts))
                # dt / alpha given as other numeric types: same step as with the equal float
                for dtt, att in ((1, 2), (np.int64(2), np.int32(1)), (np.float32(0.25), np.float32(1.5)), (True, 1.0)):
                    a_t = att if akind == "scalar" else alpha_field
                    a_f = float(att) if akind == "scalar" else alpha_field
                    outs = []
                    for dt_, al_ in ((dtt, a_t), (float(dtt), a_f)):
                        phi = pf.CellVariable(g.mesh, old0.copy(), make_bc(g, setup))
                        try:
                            pf.solvePDE(phi, [pf.transientTerm(phi, dt_, al_)] + Ms + vs)
                            outs.append(np.asarray(phi.value, dtype=float).copy())
                        except Exception as e:  # noqa: BLE001
                            outs.append(e)
                    res["evals"] += 1
                    res["nontrivial"] += 1
                    if isinstance(outs[0], Exception) or isinstance(outs[1], Exception) or \
                            not np.all(np.abs(outs[0] - outs[1]) <= 64 * EPS * 1e3 * max(1.0, float(np.max(np.abs(outs[1]))))):
                        add("typed_dt_alpha", "terms %s: transientTerm with dt=%r (%s), alpha %s differs from the same step with float arguments%s"
                            % ("+".join(ts), dtt, type(dtt).__name__, "%r (%s)" % (att, type(att).__name__) if akind == "scalar" else "field",
                               ": raises %r" % outs[0] if isinstance(outs[0], Exception) else ""), terms=list(ts))
        res["sample"] = {"grid": gid, "setup": setup, "dts": len(DTS) + 2}
    else:
        rng_rhs = U.generic_array(g.fshape, tag=413, signed=True).ravel()
        for ts in TERMSETS[:3] + [TERMSETS[4]]:
            Ms, vs = spatial(g, ts, D, u, beta, gamma)
            old0 = U.generic_array(g.dims, tag=415, signed=True)

            def explicit_rhs(v):
                fn = np.asarray(v._value, dtype=float).ravel()
                r = np.zeros(g.n)
                for M in Ms:
                    r = r - dense(M) @ fn
                for w in vs:
                    r = r + np.asarray(w)
                return r
            # (iv) explicit formula, input untouched, new object
            for dt in (2.0 ** -12, 2.0 ** -4, 1.0, 2.0 ** 6):
                v = pf.CellVariable(g.mesh, old0.copy(), make_bc(g, setup))
                v.apply_BCs()          # clean input (construction leaves the edited BC object flagged)
                before = snap(v)
                rb = rng_rhs.copy()
                # the right-hand side as the flat vector the term builders return, or shaped like the variable
                out = pf.solveExplicitPDE(v, dt, rng_rhs if dt != 1.0 else rng_rhs.reshape(g.fshape))
                res["evals"] += 1
                res["nontrivial"] += 1
                if out is v:
                    add("explicit_returns_input", "solveExplicitPDE returned its input object")
                if snap(v) != before or not np.array_equal(rb, rng_rhs):
                    add("explicit_modifies_input", "solveExplicitPDE changed its (clean) input variable or the RHS array (dt=%g)" % dt)
                want = old0 + dt * rng_rhs.reshape(g.fshape)[inner]
                if not np.array_equal(np.asarray(out.value), want):
                    add("explicit_formula", "solveExplicitPDE interior differs from old + dt*RHS by %.3g (dt=%g)"
                        % (float(np.max(np.abs(np.asarray(out.value) - want))), dt))
                ref = pf.CellVariable(g.mesh, want.copy(), make_bc(g, setup))
                if not np.array_equal(np.asarray(ref._value), np.asarray(out._value), equal_nan=True):
                    add("explicit_ghosts", "boundary values of the explicit result are not the ones its BCs give for its interior (dt=%g)" % dt)
            # (v) explicit vs implicit: O(dt^2)
            diffs = []
            # asymptotic range: lambda_max*dt << 1 with lambda_max ~ 4*D/min(h*Delta)^2
            hmin = min(float(np.min(U.hfactor(g.cls, g.mesh, ax) *
                                    np.asarray(getattr(g.mesh.cellsize, ("_x", "_y", "_z")[ax]))[1:-1].reshape(
                                        [-1 if a == ax else 1 for a in range(g.d)]))) for ax in range(g.d))
            lam = 4.0 * 32.0 / hmin ** 2 + 8.0 * 32.0 / hmin + 2.0
            base_dt = 2.0 ** np.floor(np.log2(0.02 / lam))
            Ms_s, vs_s = Ms, vs
            for k in range(4):
                dt = base_dt / 2 ** k
                vi = pf.CellVariable(g.mesh, old0.copy(), make_bc(g, setup))
                pf.solvePDE(vi, [pf.transientTerm(vi, dt, 1.0)] + Ms + vs)
                ve = pf.CellVariable(g.mesh, old0.copy(), make_bc(g, setup))
                ve = pf.solveExplicitPDE(ve, dt, explicit_rhs(ve))
                diffs.append(float(np.max(np.abs(np.asarray(vi.value) - np.asarray(ve.value)))))
                res["evals"] += 2
            sc0 = max(1.0, float(np.max(np.abs(old0))))
            if diffs[-1] > 1e6 * EPS * sc0:       # rounding cannot fake a failure
                res["nontrivial"] += 1
                ratios = [diffs[i] / diffs[i + 1] for i in range(3) if diffs[i + 1] > 0]
                if not all(r_ >= 3.5 for r_ in ratios):
                    add("explicit_implicit_order", "terms %s: |explicit-implicit| for four successive halvings of dt is %s (ratios %s, expected ~4)"
                        % ("+".join(ts), ["%.3g" % x for x in diffs], ["%.2f" % x for x in ratios]), terms=list(ts))
            # (vii) predictor/corrector from one and the same variable object: boundary data change, an
            #       explicit step is taken from v (its result is only a predictor), then the implicit step is
            #       taken from v itself; it must satisfy the residual form with the *current* boundary data
            v = pf.CellVariable(g.mesh, old0.copy(), make_bc(g, setup))
            v.apply_BCs()
            dt = 2.0 ** -8
            for ax in range(g.d):
                for side in U.SIDES[ax]:
                    bf = getattr(v.BCs, side)
                    if not bf.periodic and np.asarray(bf._c).size:
                        bf.c = np.array(bf._c) * 1.5 + 0.375
            pred = pf.solveExplicitPDE(v, dt, explicit_rhs(v))
            eq = [pf.transientTerm(v, dt, 1.0)] + Ms + vs
            ref = pf.CellVariable(g.mesh, old0.copy(), make_bc(g, setup))
            for ax in range(g.d):
                for side in U.SIDES[ax]:
                    o, n_ = getattr(v.BCs, side), getattr(ref.BCs, side)
                    if np.asarray(o._c).size:
                        n_.c = np.array(o._c)
            kap = eq_cond(total_matrix(ref, [pf.transientTerm(ref, dt, 1.0)] + Ms + vs))
            pf.solvePDE(ref, [pf.transientTerm(ref, dt, 1.0)] + Ms + vs)
            pf.solvePDE(v, eq)
            res["evals"] += 3
            res["nontrivial"] += 1
            scv = max(1.0, float(np.max(np.abs(np.asarray(ref.value)))))
            if not np.all(np.abs(np.asarray(v.value) - np.asarray(ref.value)) <= 64 * EPS * kap * scv):
                add("predictor_corrector", "terms %s: after a boundary-data change and an explicit (predictor) step from a variable, the implicit step from that same variable differs from a fresh start by %.3g"
                    % ("+".join(ts), float(np.max(np.abs(np.asarray(v.value) - np.asarray(ref.value))))), terms=list(ts))
            # (vi) mixed sequences of three steps
            for seq in itertools.product("IE", repeat=3):
                v = pf.CellVariable(g.mesh, old0.copy(), make_bc(g, setup))
                dt = 2.0 ** -8
                for si, step in enumerate(seq):
                    # time-dependent boundary data: the data of every non-periodic side change before each step
                    for ax in range(g.d):
                        for side in U.SIDES[ax]:
                            bf = getattr(v.BCs, side)
                            if not bf.periodic and np.asarray(bf._c).size:
                                bf.c = np.array(bf._c) * 1.25 + 0.125 * (si + 1)
                    oldv = np.asarray(v.value, dtype=float).copy()
                    res["evals"] += 1
                    if step == "I":
                        eq = [pf.transientTerm(v, dt, 1.0)] + Ms + vs
                        kap = eq_cond(total_matrix(v, eq)) if hasattr(v, "_BCsTerm") else 1e3
                        v = pf.solvePDE(v, eq)
                        r, sc = residual(v, oldv, dt, 1.0, Ms, vs)
                        if not np.all(np.abs(r) <= 64 * EPS * kap * (np.max(sc) + 1e-300)):
                            add("sequence_residual", "sequence %s, terms %s: implicit step violates the residual form by %.3g" % ("".join(seq), "+".join(ts), float(np.max(np.abs(r)))))
                    else:
                        rhs = explicit_rhs(v)
                        v2 = pf.solveExplicitPDE(v, dt, rhs)
                        want = oldv + dt * rhs.reshape(g.fshape)[inner]
                        if not np.array_equal(np.asarray(v2.value), want):
                            add("sequence_explicit", "sequence %s, terms %s: explicit step differs from old + dt*RHS" % ("".join(seq), "+".join(ts)))
                        v = v2
                res["nontrivial"] += 1
        res["sample"] = {"grid": gid, "setup": setup, "sequences": 8}
    res["outcomes"] = {"%s:%s" % (case["part"], "ok" if not F else "viol"): 1}
    return res
