"""Finite alphabets (DESIGN.md section 3.1): grid classes, spacing templates, shapes,
boundary kinds and field pools.  Every enumeration here is deterministic; VERIF_SEED only
permutes the pool of dyadic values, never the structure of an enumeration."""
import functools
import itertools
import math
import random

import numpy as np

from .env import pf, SEED

CLASSES = ["Grid1D", "CylindricalGrid1D", "SphericalGrid1D",
           "Grid2D", "CylindricalGrid2D", "PolarGrid2D",
           "Grid3D", "CylindricalGrid3D", "SphericalGrid3D"]

# axis kinds: lin (x,y,z, axial z), rad (r), azi (theta of polar/cyl, phi of spherical),
# pol (theta of spherical, inside (0,pi))
AXES = {
    "Grid1D": ["lin"], "CylindricalGrid1D": ["rad"], "SphericalGrid1D": ["rad"],
    "Grid2D": ["lin", "lin"], "CylindricalGrid2D": ["rad", "lin"], "PolarGrid2D": ["rad", "azi"],
    "Grid3D": ["lin", "lin", "lin"], "CylindricalGrid3D": ["rad", "azi", "lin"],
    "SphericalGrid3D": ["rad", "pol", "azi"],
}
LABELS = {
    "Grid1D": ["x"], "CylindricalGrid1D": ["r"], "SphericalGrid1D": ["r"],
    "Grid2D": ["x", "y"], "CylindricalGrid2D": ["r", "z"], "PolarGrid2D": ["r", "theta"],
    "Grid3D": ["x", "y", "z"], "CylindricalGrid3D": ["r", "theta", "z"],
    "SphericalGrid3D": ["r", "theta", "phi"],
}
SIDES = [("left", "right"), ("bottom", "top"), ("back", "front")]
COMP = ["_xvalue", "_yvalue", "_zvalue"]


def dim(cls):
    return len(AXES[cls])


def periodic_ok(kind):
    """Axes on which a periodic condition is meaningful: Cartesian/axial and azimuthal."""
    return kind in ("lin", "azi")


FLAG_MODES = ("both", "lo", "hi")


def flag_mode(*ints):
    """Which face(s) of a periodic axis carry the `periodic` flag - either face declares the axis periodic, so all
    three ways are equivalent requests.  Checks that do not enumerate the three modes pick one deterministically
    from the parameters of the configuration, so that every mode occurs on every class somewhere."""
    return FLAG_MODES[sum(int(i) for i in ints) % 3]


def set_periodic(bc, ax, mode="both"):
    lo, hi = SIDES[ax]
    if mode in ("both", "lo"):
        getattr(bc, lo).periodic = True
    if mode in ("both", "hi"):
        getattr(bc, hi).periodic = True


def periodic_axis(cls, shape, org):
    """The axis made periodic by the single-periodic-axis set-ups of the solver-level checks: one of the axes on which
    a periodic condition is meaningful, chosen from the grid's parameters so that over the enumeration of shapes and
    origins every candidate axis of every class is used (Grid3D: x, y and z; CylindricalGrid3D: theta and z)."""
    cand = [ax for ax, k in enumerate(AXES[cls]) if periodic_ok(k)]
    if not cand:
        return None
    return cand[(sum(int(n) for n in shape) + int(org)) % len(cand)]


def axis_sign_patterns(d, with_zero=True):
    """All assignments of a sign (+, -, and optionally 0) to the d velocity components: flows that go forward along
    one axis and backward (or not at all) along another."""
    return list(itertools.product((1.0, -1.0, 0.0) if with_zero else (1.0, -1.0), repeat=d))


def has_radial(cls):
    return AXES[cls][0] == "rad"


_E = 2.0 ** -20
# "E": nearly (not exactly) equispaced - relative deviations of 1e-6, all increments distinct
_INCR = {"U": [1, 1, 1, 1, 1, 1, 1, 1], "G": [1, 2, 4, 8, 16, 32, 64, 128],
         "I": [1, 3, 2, 5, 4, 7, 3, 6],
         "E": [1, 1 + 3 * _E, 1 + _E, 1 + 5 * _E, 1 + 2 * _E, 1 + 7 * _E, 1 + 4 * _E, 1 + 6 * _E]}


def length(kind, N, axis=0):
    """Domain length used with the (N, L) constructor form (spacing template "L").  Length-like axes get the
    cell width 0.25 (1 + axis/2) - 0.25, 0.375, 0.5, all dyadic - so that dx, dy and dz differ on Cartesian grids
    (and dr, dz on cylindrical ones): a term that takes the cell width of the wrong axis is not hidden by it."""
    return {"lin": 0.25 * N * (1.0 + 0.5 * axis), "rad": 0.25 * N * (1.0 + 0.5 * axis), "azi": 2 * math.pi, "pol": math.pi}[kind]


def faces(kind, N, sp, org=0, axis=0):
    """Face positions of one axis.  All lengths are dyadic; angles are multiples of pi/16
    or pi/20.  Template "L" stands for a mesh built with the (N, L) constructor form; its
    face positions are the equispaced ones that form is documented to produce."""
    if sp == "L":
        return np.arange(N + 1) * (length(kind, N, axis) / N)
    inc = np.array(_INCR[sp][:N], dtype=float)
    if N > 8:
        inc = np.resize(np.array(_INCR[sp], dtype=float), N)
    if kind == "lin":
        start = 0.0 if org == 0 else -0.375
        return start + np.concatenate([[0.0], np.cumsum(inc)]) * 0.25
    if kind == "rad":
        start = 0.0 if org == 0 else 0.5
        return start + np.concatenate([[0.0], np.cumsum(inc)]) * 0.25
    if kind == "azi":
        if sp == "U":
            return np.arange(N + 1) * (2 * math.pi / N)
        h = math.pi / 16 if sp in ("I", "E") else math.pi / 20
        if N > 8:
            h = 1.5 * math.pi / inc.sum()
        if sp == "G":
            inc = np.array([1, 2, 4, 8][:N], dtype=float) if N <= 4 else np.ones(N)
        return math.pi / 8 + np.concatenate([[0.0], np.cumsum(inc)]) * h
    if kind == "pol":
        if sp == "U":
            return np.arange(N + 1) * (math.pi / N)
        if sp in ("I", "E"):
            inc = np.array(_INCR[sp][:N], dtype=float)
            h = math.pi / 16 if N <= 4 else (0.75 * math.pi / inc.sum())
            return math.pi / 8 + np.concatenate([[0.0], np.cumsum(inc)]) * h
        inc = np.array([1, 2, 4, 8][:N], dtype=float) if N <= 4 else np.ones(N)
        h = math.pi / 20 if N <= 4 else (0.75 * math.pi / inc.sum())
        return math.pi / 16 + np.concatenate([[0.0], np.cumsum(inc)]) * h
    raise ValueError(kind)


def spec(cls, shape, sp, org=0, scale=0):
    """`scale` = k rescales every length-like axis (lin, rad) by 2**k exactly (angles are
    unchanged): the same grid expressed in another length unit (nanometres, kilometres)."""
    s = {"cls": cls, "shape": list(shape), "sp": list(sp), "org": int(org)}
    if scale:
        s["scale"] = int(scale)
    return s


def spec_id(s):
    return "%s[%s|%s|o%d%s]" % (s["cls"], "x".join(map(str, s["shape"])), "".join(s["sp"]), s["org"],
                                "|2^%d" % s["scale"] if s.get("scale") else "")


def spec_faces(s):
    kinds = AXES[s["cls"]]
    k = 2.0 ** s.get("scale", 0)
    return [faces(kd, n, sp, s["org"], ax) * (k if kd in ("lin", "rad") else 1.0)
            for ax, (kd, n, sp) in enumerate(zip(kinds, s["shape"], s["sp"]))]


def make_mesh(s):
    if s["sp"][0] == "L":   # (N, L) constructor form (all axes at once)
        kinds = AXES[s["cls"]]
        k2 = 2.0 ** s.get("scale", 0)
        return getattr(pf, s["cls"])(*[int(n) for n in s["shape"]],
                                     *[length(k, n, ax) * (k2 if k in ("lin", "rad") else 1.0)
                                       for ax, (k, n) in enumerate(zip(kinds, s["shape"]))])
    return getattr(pf, s["cls"])(*spec_faces(s))


QUICK_SHAPES_3D = [(1, 1, 1), (2, 2, 2), (1, 2, 3), (2, 3, 1), (3, 1, 2), (3, 3, 2)]


def shapes(d, tier, nmax=3):
    if d == 3 and tier == "quick":
        return list(QUICK_SHAPES_3D)
    return list(itertools.product(range(1, nmax + 1), repeat=d))


# shapes beyond N<=3 that every operator-level check also visits (irregular spacing, both
# radial origins): a fast path or an index slip keyed on "more than three cells" needs them
LARGE_SHAPES = {1: [(4,), (5,), (6,)], 2: [(4, 2), (2, 5), (5, 4)], 3: [(4, 2, 1), (2, 1, 5)]}
# grids expressed in very small / very large length units (exact power-of-two rescaling): an
# absolute tolerance or threshold anywhere in the library (np.isclose/allclose defaults, eps
# guards applied to dimensional quantities) shows only there
SCALED_SHAPES = {1: [(3,)], 2: [(2, 3)], 3: [(2, 1, 3)]}
SCALES = [-30, 40]


def grid_bounds(tier="quick"):
    """Description of the shared grid enumeration for the evidence files."""
    return {"cells_per_axis": "1..3 in every combination (3-D quick: 6 shapes)", "larger_shapes": {str(k): v for k, v in LARGE_SHAPES.items()},
            "spacing_templates": ["U", "I"] + (["G"] if tier != "quick" else []) + ["L = (N, L) constructor form", "E = nearly equispaced (1e-6)"],
            "radial_origin": [0, 0.5], "length_units": ["1"] + ["2^%d" % k for k in SCALES],
            "big_grids_generic_fields": {str(k): v for k, v in BIG_SHAPES.items()}}


BIG_SHAPES = {1: [(40,), (133,)], 2: [(17, 13), (1, 40)], 3: [(7, 6, 5), (1, 12, 1)]}


def big_specs(classes=None):
    """Grids with many cells per axis.  A basis-exhaustive enumeration is not affordable there; checks that use
    them evaluate their identity on generic (all entries distinct) fields and on all sign patterns - they catch
    code paths that depend on the number of cells (vectorised fast paths, blocked loops, cached index tables)."""
    out = []
    for cls in (classes or CLASSES):
        d = dim(cls)
        for shape in BIG_SHAPES[d]:
            out.append(spec(cls, shape, ["I"] * d, 1))
            out.append(spec(cls, shape, ["L"] * d, 0))
    return out


def grid_specs(tier="quick", classes=None, templates=None, nmax=None, shapes_override=None, extras=True):
    """All grid instances of the bound: class x shape x spacing per axis x radial origin,
    plus (extras) every shape once through the (N, L) constructor form and the LARGE_SHAPES."""
    out = []
    templates_given = bool(templates)
    templates = templates or (["U", "I"] if tier == "quick" else ["U", "G", "I"])
    for cls in (classes or CLASSES):
        d = dim(cls)
        nm = nmax or 3
        shp = shapes_override[d] if shapes_override and d in shapes_override else shapes(d, tier, nm)
        orgs = [0, 1]
        for shape in shp:
            for sp in itertools.product(templates, repeat=d):
                for org in orgs:
                    out.append(spec(cls, shape, sp, org))
        if extras and not shapes_override and not templates_given:
            for shape in shp:
                out.append(spec(cls, shape, ["L"] * d, 0))
            for shape in LARGE_SHAPES[d]:
                for org in orgs:
                    out.append(spec(cls, shape, ["I"] * d, org))
                out.append(spec(cls, shape, ["L"] * d, 0))
            for shape in SCALED_SHAPES[d]:
                for k in SCALES:
                    for org in orgs:
                        out.append(spec(cls, shape, ["I"] * d, org, k))
                    out.append(spec(cls, shape, ["L"] * d, 0, k))
            for shape in SCALED_SHAPES[d]:      # nearly equispaced faces
                for org in orgs:
                    out.append(spec(cls, shape, ["E"] * d, org))
    return out


# ------------------------------------------------------------------ value pools

@functools.lru_cache(maxsize=4096)
def _pool(seed, n):
    vals = [(k + 8) / 16.0 for k in range(n)]
    random.Random(1000003 * seed + 17).shuffle(vals)
    return tuple(vals)


def pool(seed=None, n=512):
    """Distinct dyadic values (k+8)/16, permuted by the seed."""
    seed = SEED if seed is None else seed
    return _pool(seed, n)


def generic_array(shape, seed=None, tag=0, signed=False):
    """Array with all entries distinct (dyadic), deterministic in (seed, tag, shape)."""
    seed = SEED if seed is None else seed
    n = int(np.prod(shape)) if len(shape) else 1
    p = pool(seed * 31 + tag, n=max(512, 2 * n))
    a = np.array(p[:n], dtype=float)
    if signed:
        sg = np.array([1.0 if (i * 7 + tag) % 3 else -1.0 for i in range(n)])
        a = a * sg
    return a.reshape(shape)


# ------------------------------------------------------------------ mesh helpers

def full_shape(mesh):
    return tuple(int(n) + 2 for n in mesh.dims)


def face_shapes(mesh):
    d = len(mesh.dims)
    dims = [int(n) for n in mesh.dims]
    out = []
    for ax in range(d):
        s = list(dims)
        s[ax] += 1
        out.append(tuple(s))
    return out


def zero_face(mesh):
    fs = face_shapes(mesh)
    comps = [np.zeros(s) for s in fs] + [np.array([])] * (3 - len(fs))
    return pf.FaceVariable(mesh, *comps)


def face_from_arrays(mesh, arrs):
    comps = [np.array(a, dtype=float) for a in arrs] + [np.array([])] * (3 - len(arrs))
    return pf.FaceVariable(mesh, *comps)


def FaceVariable_from_views(mesh, arrs):
    """FaceVariable holding exactly the given array objects (no copy, whatever their memory layout)."""
    comps = list(arrs) + [np.array([])] * (3 - len(arrs))
    return pf.FaceVariable(mesh, *comps)


def all_faces(mesh):
    """List of (axis, index tuple) for every face of the mesh."""
    out = []
    for ax, s in enumerate(face_shapes(mesh)):
        for idx in np.ndindex(*s):
            out.append((ax, tuple(int(i) for i in idx)))
    return out


def is_boundary_face(mesh, ax, idx):
    return idx[ax] == 0 or idx[ax] == int(mesh.dims[ax])


def comps(fv, d):
    return [getattr(fv, COMP[a]) for a in range(d)]


def layered_array(shape, vary_axis, seed=None, tag=0, signed=False):
    """Array that varies along one axis only (a layered medium): generic values along `vary_axis`, constant along
    all the others."""
    line = generic_array((shape[vary_axis],), seed, tag, signed)
    sh = [1] * len(shape)
    sh[vary_axis] = shape[vary_axis]
    return np.broadcast_to(line.reshape(sh), shape).copy()


def generic_face(mesh, seed=None, tag=0, signed=False):
    return face_from_arrays(mesh, [generic_array(s, seed, tag + 3 * a, signed)
                                   for a, s in enumerate(face_shapes(mesh))])


def cellvar_full(mesh, full):
    """CellVariable whose complete array (incl. ghost cells) is `full` (copied)."""
    return pf.CellVariable(mesh, np.array(full, dtype=float).reshape(full_shape(mesh)).copy())


def interior(mesh, full):
    sl = tuple(slice(1, -1) for _ in mesh.dims)
    return np.asarray(full).reshape(full_shape(mesh))[sl]


def interior_mask(mesh):
    m = np.zeros(full_shape(mesh), dtype=bool)
    m[tuple(slice(1, -1) for _ in mesh.dims)] = True
    return m


# ------------------------------------------------------------------ reference geometry

def metric(cls, mesh):
    """Mid-point metric data the library's operators are built on.

    Returns dict with per-axis face 'area' arrays A[ax] (shape = face shape) and cell
    'vol' (shape dims), such that div(F)_c = sum_ax (A_e F_e - A_w F_w)/vol_c.  These are
    the *library-consistent* measures (exact for Cartesian/cylindrical/polar and
    SphericalGrid1D; mid-point r_P^2 sin(theta_P) for SphericalGrid3D)."""
    d = dim(cls)
    fc = [np.asarray(getattr(mesh.facecenters, a)) for a in ("_x", "_y", "_z")[:d]]
    cc = [np.asarray(getattr(mesh.cellcenters, a)) for a in ("_x", "_y", "_z")[:d]]
    dx = [np.diff(f) for f in fc]
    dims = [int(n) for n in mesh.dims]

    def bc(a, ax, n):  # broadcast 1-D array along axis ax of an n-d array
        sh = [1] * n
        sh[ax] = len(a)
        return np.asarray(a).reshape(sh)

    A = []
    if cls in ("Grid1D", "Grid2D", "Grid3D"):
        vol = np.ones(dims)
        for ax in range(d):
            vol = vol * bc(dx[ax], ax, d)
        for ax in range(d):
            a = np.ones(face_shapes(mesh)[ax])
            for o in range(d):
                if o != ax:
                    a = a * bc(dx[o], o, d)
            A.append(a)
    elif cls == "CylindricalGrid1D":
        vol = 2 * math.pi * cc[0] * dx[0]
        A.append(2 * math.pi * fc[0])
    elif cls == "SphericalGrid1D":
        vol = 4 * math.pi / 3 * (fc[0][1:] ** 3 - fc[0][:-1] ** 3)
        A.append(4 * math.pi * fc[0] ** 2)
    elif cls == "CylindricalGrid2D":
        vol = 2 * math.pi * bc(cc[0] * dx[0], 0, 2) * bc(dx[1], 1, 2)
        A.append(2 * math.pi * bc(fc[0], 0, 2) * bc(dx[1], 1, 2) * np.ones(face_shapes(mesh)[0]))
        A.append(2 * math.pi * bc(cc[0] * dx[0], 0, 2) * np.ones(face_shapes(mesh)[1]))
    elif cls == "PolarGrid2D":
        vol = bc(cc[0] * dx[0], 0, 2) * bc(dx[1], 1, 2)
        A.append(bc(fc[0], 0, 2) * bc(dx[1], 1, 2) * np.ones(face_shapes(mesh)[0]))
        A.append(bc(dx[0], 0, 2) * np.ones(face_shapes(mesh)[1]))
    elif cls == "CylindricalGrid3D":
        vol = bc(cc[0] * dx[0], 0, 3) * bc(dx[1], 1, 3) * bc(dx[2], 2, 3)
        A.append(bc(fc[0], 0, 3) * bc(dx[1], 1, 3) * bc(dx[2], 2, 3) * np.ones(face_shapes(mesh)[0]))
        A.append(bc(dx[0], 0, 3) * bc(dx[2], 2, 3) * np.ones(face_shapes(mesh)[1]))
        A.append(bc(cc[0] * dx[0], 0, 3) * bc(dx[1], 1, 3) * np.ones(face_shapes(mesh)[2]))
    elif cls == "SphericalGrid3D":
        st = np.sin(cc[1])
        stf = np.sin(fc[1])
        vol = bc(cc[0] ** 2 * dx[0], 0, 3) * bc(st * dx[1], 1, 3) * bc(dx[2], 2, 3)
        A.append(bc(fc[0] ** 2, 0, 3) * bc(st * dx[1], 1, 3) * bc(dx[2], 2, 3) * np.ones(face_shapes(mesh)[0]))
        A.append(bc(cc[0] * dx[0], 0, 3) * bc(stf, 1, 3) * bc(dx[2], 2, 3) * np.ones(face_shapes(mesh)[1]))
        A.append(bc(cc[0] * dx[0], 0, 3) * bc(dx[1], 1, 3) * np.ones(face_shapes(mesh)[2]))
    else:
        raise ValueError(cls)
    return {"vol": vol, "area": A}


def ref_divergence(cls, mesh, farrs):
    """Loop-free but independent reference divergence on interior cells (array of dims)."""
    g = metric(cls, mesh)
    d = dim(cls)
    out = np.zeros([int(n) for n in mesh.dims])
    for ax in range(d):
        AF = g["area"][ax] * farrs[ax]
        hi = [slice(None)] * d
        lo = [slice(None)] * d
        hi[ax] = slice(1, None)
        lo[ax] = slice(0, -1)
        out = out + (AF[tuple(hi)] - AF[tuple(lo)])
    return out / g["vol"]


def hfactor(cls, mesh, ax):
    """Metric factor h of axis `ax` evaluated at cell centres (array of dims):
    1, r_P (theta), r_P sin(theta_P) (phi of spherical)."""
    d = dim(cls)
    dims = [int(n) for n in mesh.dims]
    h = np.ones(dims)
    kinds = AXES[cls]
    r = np.asarray(mesh.cellcenters._x)
    if kinds[ax] in ("azi", "pol"):
        sh = [1] * d
        sh[0] = dims[0]
        h = h * r.reshape(sh)
    if cls == "SphericalGrid3D" and ax == 2:
        th = np.asarray(mesh.cellcenters._y)
        h = h * np.sin(th).reshape(1, dims[1], 1)
    return h
