"""Runner shared by all checks: deterministic case enumeration, parallel execution,
known-findings matching, replay files, evidence files, output contract.

A check module provides
    ID                      property id, e.g. "C05"
    LEVEL                   evidence level ("model_checking")
    RULE                    text: how cases are enumerated / what is non-trivial
    ASSUMPTIONS             list of strings
    cases(tier) -> list     JSON-serialisable case dicts, simplest first
    run_case(case) -> dict  {"evals": int, "nontrivial": int, "findings": [...],
                             "outcomes": {label: n}, optional "states"/"transitions",
                             optional "precond_failed": int}
A finding is {"key": str, "msg": str, "detail": {...}}.  The key names the call site /
input class / history (never the property alone); see DESIGN.md section 3.7.
"""
import collections
import fnmatch
import hashlib
import json
import multiprocessing as mp
import os
import subprocess
import sys
import time
import traceback

from . import env

KNOWN_FILE = os.path.join(env.VERIF_DIR, "known_findings.json")
MAX_FINDINGS_PER_CASE = 40
MAX_REPLAY_VERIFY = 6


def load_known():
    if not os.path.exists(KNOWN_FILE):
        return []
    with open(KNOWN_FILE) as f:
        return json.load(f).get("findings", [])


def match_known(prop, key, known):
    """Return the open entry matching this finding key, or None.  `fixed` entries suppress
    nothing."""
    for e in known:
        if e.get("property") != prop or e.get("status") != "open":
            continue
        if fnmatch.fnmatchcase(key, e["key"]):
            return e
    return None


def _digest(obj):
    return hashlib.sha256(json.dumps(obj, sort_keys=True, default=str).encode()).hexdigest()[:16]


def _safe_run(args):
    modname, case = args
    mod = sys.modules[modname]
    t0 = time.time()
    try:
        r = mod.run_case(case)
    except Exception as e:  # an unanticipated exception is itself reported
        tb = traceback.extract_tb(e.__traceback__)
        where = "?"
        for fr in reversed(tb):
            if "pyfvtool" in fr.filename:
                where = "%s:%s" % (os.path.basename(fr.filename), fr.name)
                break
        else:
            if tb:
                where = "%s:%s" % (os.path.basename(tb[-1].filename), tb[-1].name)
        r = {"evals": 1, "nontrivial": 0, "findings": [{
            "key": "%s:unexpected_exception:%s:%s" % (mod.ID, type(e).__name__, where),
            "msg": "unexpected %s: %s" % (type(e).__name__, e),
            "detail": {"traceback": traceback.format_exc()[-1500:]}}], "outcomes": {"exception": 1}}
    r["wall"] = time.time() - t0
    if len(r.get("findings", [])) > MAX_FINDINGS_PER_CASE:
        # keep the first finding of every distinct key, then fill up
        seen, keep = set(), []
        for f in r["findings"]:
            if f["key"] not in seen:
                seen.add(f["key"])
                keep.append(f)
        r["findings_dropped"] = len(r["findings"]) - len(keep)
        r["findings"] = keep
    return case, r


def run_cases(mod, cases, nproc=None):
    nproc = nproc or env.NPROC
    args = [(mod.__name__, c) for c in cases]
    if nproc <= 1 or len(cases) < 4:
        for a in args:
            yield _safe_run(a)
        return
    ctx = mp.get_context("fork")
    chunk = max(1, min(64, len(args) // (nproc * 8) or 1))
    if hasattr(mod, "weight"):
        # heavy cases first, one per task: avoids stragglers at the end of the run
        order = sorted(range(len(args)), key=lambda i: -mod.weight(cases[i]))
        args = [args[i] for i in order]
        chunk = 1
    with ctx.Pool(nproc) as pool:
        for res in pool.imap_unordered(_safe_run, args, chunksize=chunk) if chunk == 1 else \
                pool.imap(_safe_run, args, chunksize=chunk):
            yield res


def write_replay(prop, key, case, finding):
    d = os.path.join(env.VERIF_DIR, "replays", prop)
    os.makedirs(d, exist_ok=True)
    name = hashlib.sha256(key.encode()).hexdigest()[:12] + ".json"
    path = os.path.join(d, name)
    with open(path, "w") as f:
        json.dump({"property": prop, "key": key, "case": case, "finding": finding,
                   "seed": env.SEED}, f, indent=1, sort_keys=True, default=str)
    return path


def verify_replay(path):
    """Re-execute a replay file twice in fresh interpreters; both must reproduce the same
    finding digest.  Returns (reproduced, deterministic)."""
    outs = []
    for _ in range(2):
        e = dict(os.environ)
        e["PYTHONHASHSEED"] = "0"
        p = subprocess.run([sys.executable, "-m", "fvmc.replay", path, "--digest"],
                           cwd=env.VERIF_DIR, env=e, capture_output=True, text=True, timeout=600)
        outs.append((p.returncode, p.stdout.strip().splitlines()[-1:] if p.stdout.strip() else []))
    reproduced = all(rc == 1 for rc, _ in outs)
    deterministic = outs[0] == outs[1]
    return reproduced, deterministic


def main(mod, tier):
    t0 = time.time()
    prop = mod.ID
    known = load_known()
    cases = list(mod.cases(tier))
    # de-duplicate cases structurally
    seen, uniq = set(), []
    for c in cases:
        k = json.dumps(c, sort_keys=True, default=str)
        if k not in seen:
            seen.add(k)
            uniq.append(c)
    cases = uniq

    evals = nontrivial = states = transitions = precond = 0
    outcomes = collections.Counter()
    by_key = collections.OrderedDict()
    extra = collections.Counter()
    samples = []
    slowest = (0.0, None)
    extra_info = {}
    caps_seen = []
    stream = mod.explore(tier) if hasattr(mod, "explore") else run_cases(mod, cases)
    for i, (case, r) in enumerate(stream):
        evals += int(r.get("evals", 1))
        nontrivial += int(r.get("nontrivial", 0))
        states += int(r.get("states", 0))
        transitions += int(r.get("transitions", 0))
        precond += int(r.get("precond_failed", 0))
        outcomes.update(r.get("outcomes", {}))
        extra.update(r.get("counters", {}))
        if r.get("wall", 0) > slowest[0]:
            slowest = (r["wall"], case)
        if (i in (0, len(cases) // 2, len(cases) - 1) or r.get("sample_me")) and len(samples) < 6:
            samples.append({"case": case, "sample": r.get("sample")})
        for kk in ("depth_completed", "closed", "per_level"):
            if kk in r:
                extra_info.setdefault(kk, {})[r.get("label", str(i))] = r[kk]
        caps_seen.extend(r.get("caps_hit", []))
        for f in r.get("findings", []):
            by_key.setdefault(f["key"], []).append((case, f))
        if os.environ.get("VERIF_FAILFAST_INNER"):
            # detection runs (mutation campaign, seeded changes; see fvmc/run.py): the first violation decides.  It is
            # printed at once; the supervising parent process then stops this process group.  Never used by the
            # registered commands, whose evidence must describe the complete enumeration.
            for f in r.get("findings", []):
                if match_known(prop, f["key"], known) is None:
                    path = write_replay(prop, f["key"], case, f)
                    print("VIOLATION property=%s replay=%s key=%s cases=1 :: %s (fail-fast detection run: enumeration stopped here, replay not re-executed)"
                          % (prop, path, f["key"], f.get("msg", "")), flush=True)

    known_hits, violations = [], []
    for key, lst in by_key.items():
        e = match_known(prop, key, known)
        if e is not None:
            known_hits.append((e, key, len(lst)))
        else:
            violations.append((key, lst))

    printed = set()
    for e, key, n in known_hits:
        tag = e["key"]
        if tag in printed:
            continue
        printed.add(tag)
        print("KNOWN-FINDING: property=%s %s [key=%s]" % (prop, e["what_fails"], e["key"]))
    hit_patterns = {e["key"] for e, _, _ in known_hits}
    for e in known:
        if e.get("property") == prop and e.get("status") == "open" and e["key"] not in hit_patterns:
            applies = e.get("tiers")
            if applies and tier not in applies:
                continue
            print("note: open known finding not hit in this run (stale?): %s" % e["key"])

    nver = 0
    replays_verified = 0
    for key, lst in violations:
        case, f = lst[0]
        path = write_replay(prop, key, case, f)
        note = ""
        if nver < MAX_REPLAY_VERIFY:
            nver += 1
            try:
                rep, det = verify_replay(path)
            except Exception as ex:  # pragma: no cover
                rep, det = False, False
                note = " (replay verification failed to run: %s)" % ex
            if not det:
                print("HARNESS-ERROR: replay of %s is not deterministic" % path)
            elif not rep:
                print("HARNESS-ERROR: replay of %s does not reproduce in a fresh process" % path)
            else:
                replays_verified += 2
        print("VIOLATION property=%s replay=%s key=%s cases=%d :: %s%s"
              % (prop, path, key, len(lst), f.get("msg", ""), note))

    wall = time.time() - t0
    cov = {
        "evaluations": evals,
        "distinct_nontrivial": nontrivial,
        "rule": getattr(mod, "RULE", ""),
        "samples": samples or [{"case": None}],
        "exhaustive": bool(getattr(mod, "EXHAUSTIVE", True)),
        "exhaustive_scope": getattr(mod, "SCOPE", "every element of the finite space described by `rule` and `bounds` was executed (no sampling, no cap hit)"),
        "cases": len(cases),
        "bounds": mod.bounds(tier) if hasattr(mod, "bounds") else {},
        "distinct_outcomes": len(outcomes),
        "outcomes": dict(outcomes.most_common(40)),
        "preconditions_failed": precond,
        "known_findings_hit": sorted({e["key"] for e, _, _ in known_hits}),
        "known_finding_cases": sum(n for _, _, n in known_hits),
        "traces_validated_against_impl": evals,
        "fresh_process_replays": replays_verified,
        "caps_hit": list(getattr(mod, "CAPS_HIT", [])) + caps_seen,
        "slowest_case_s": round(slowest[0], 3),
        "nproc": env.NPROC,
    }
    if states:
        cov["states"] = states
        cov["transitions"] = max(transitions, 1)
    cov.update({k: v for k, v in extra.items()})
    cov.update(extra_info)
    if caps_seen:
        cov["exhaustive"] = False
    ev = {
        "property_id": prop, "tier": tier, "seed": env.SEED,
        "level": getattr(mod, "LEVEL", "model_checking"),
        "coverage": cov,
        "assumptions": list(getattr(mod, "ASSUMPTIONS", [])),
        "wall_s": round(wall, 3),
        "violations": len(violations),
    }
    if not os.environ.get("VERIF_NOEVIDENCE"):
        os.makedirs(os.path.join(env.VERIF_DIR, "evidence"), exist_ok=True)
        with open(os.path.join(env.VERIF_DIR, "evidence", prop + ".json"), "w") as f:
            json.dump(ev, f, indent=1, sort_keys=True, default=str)
    print("%s tier=%s seed=%d cases=%d evaluations=%d nontrivial=%d states=%d transitions=%d "
          "outcomes=%d known=%d violations=%d wall=%.1fs"
          % (prop, tier, env.SEED, len(cases), evals, nontrivial, states, transitions,
             len(outcomes), len(known_hits), len(violations), wall))
    return 1 if violations else 0
