#!/usr/bin/env python3
"""Runs every check of MANIFEST.json (quick or thorough) and prints one line per check.
usage: run_all.py [--tier quick|thorough] [--seeds 0,1] [--noevidence]"""
import json, os, subprocess, sys, time
V = os.path.dirname(os.path.dirname(os.path.abspath(__file__)))
tier = sys.argv[sys.argv.index("--tier") + 1] if "--tier" in sys.argv else "quick"
seeds = sys.argv[sys.argv.index("--seeds") + 1].split(",") if "--seeds" in sys.argv else ["0"]
man = json.load(open(os.path.join(V, "MANIFEST.json")))
bad = 0
for seed in seeds:
    for c in man["checks"]:
        cmd = c["quick_cmd"] if tier == "quick" else c.get("thorough_cmd", c["quick_cmd"])
        env = dict(os.environ, VERIF_SEED=seed)
        if "--noevidence" in sys.argv:
            env["VERIF_NOEVIDENCE"] = "1"
        t0 = time.time()
        p = subprocess.run(cmd, shell=True, cwd=V, env=env, capture_output=True, text=True)
        viol = [l for l in p.stdout.splitlines() if l.startswith(("VIOLATION", "HARNESS-ERROR"))]
        last = p.stdout.strip().splitlines()[-1] if p.stdout.strip() else p.stderr[-300:]
        print("%s seed=%s exit=%d viol=%d %.0fs :: %s" % (c["property_id"], seed, p.returncode, len(viol), time.time() - t0, last[:160]), flush=True)
        for l in viol[:3]:
            print("    ", l[:300])
        if p.returncode != 0:
            bad += 1
sys.exit(1 if bad else 0)
