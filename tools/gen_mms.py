#!/usr/bin/env python3-vt
"""Generates fvmc/gen/mms_sources.py: manufactured solutions and the pieces of
    alpha*dphi/dt + div(u*phi) - div(D*grad(phi)) + beta*phi = gamma
in Cartesian, cylindrical/polar and spherical coordinates, derived symbolically with sympy.
Run with the tooling venv (python3-vt tools/gen_mms.py); the output is pure numpy and is
committed.  `--check` regenerates into memory and diffs against the committed file.
The div/grad transcriptions are cross-checked inside this generator against a direct
Cartesian evaluation (chain rule through the coordinate map) at random points."""
import sys
import sympy as sp
from sympy.printing.numpy import NumPyPrinter

x1, x2, x3, t = sp.symbols("x1 x2 x3 t", real=True)
X = (x1, x2, x3)

SYSTEMS = {
    # name: (ndim, scale factors h_i as functions of the coordinates)
    "cart1": (1, [1]), "cart2": (2, [1, 1]), "cart3": (3, [1, 1, 1]),
    "cyl1": (1, [1]), "cyl2": (2, [1, 1]),              # (r) , (r, z)   with Jacobian r
    "polar": (2, [1, x1]), "cyl3": (3, [1, x1, 1]),      # (r, theta), (r, theta, z)
    "sph1": (1, [1]), "sph3": (3, [1, x1, x1 * sp.sin(x2)]),   # (r), (r, theta, phi)
}
JAC = {"cart1": 1, "cart2": 1, "cart3": 1, "cyl1": x1, "cyl2": x1, "polar": x1, "cyl3": x1,
       "sph1": x1 ** 2, "sph3": x1 ** 2 * sp.sin(x2)}


def factors(system, fam, axis0):
    """One smooth positive factor per coordinate; axis0: radial domain starts at r=0."""
    radial = system not in ("cart1", "cart2", "cart3")
    f = []
    if fam == 0:
        lin = [sp.sin(sp.Rational(13, 10) * x1 + sp.Rational(2, 5)) + sp.Rational(3, 2),
               sp.cos(sp.Rational(9, 10) * x2 - sp.Rational(3, 10)) + sp.Rational(6, 5),
               sp.exp(sp.Rational(1, 2) * x3) * sp.Rational(1, 2) + 1]
        rad = (sp.cos(x1 ** 2) + 2) if axis0 else (sp.cos(sp.Rational(11, 10) * x1) + 2)
        ang = {"polar": [sp.sin(2 * x2 + sp.Rational(3, 10)) + sp.Rational(3, 2)],
               "cyl3": [sp.sin(2 * x2 + sp.Rational(3, 10)) + sp.Rational(3, 2), lin[2]],
               "cyl2": [lin[1]],
               "sph3": [sp.cos(x2) / 2 + sp.Rational(6, 5), sp.sin(x3 + sp.Rational(1, 5)) + sp.Rational(7, 5)]}
    else:
        lin = [sp.exp(-sp.Rational(7, 10) * x1) + x1 ** 2 / 2 + 1,
               sp.sin(sp.Rational(3, 2) * x2) ** 2 + 1,
               sp.cos(sp.Rational(4, 5) * x3 + sp.Rational(1, 2)) + 2]
        rad = (sp.exp(-x1 ** 2) + 1 + x1 ** 4 / 4) if axis0 else (sp.exp(-sp.Rational(4, 5) * x1) + x1 ** 2 / 3 + 1)
        ang = {"polar": [sp.cos(3 * x2) / 2 + sp.Rational(3, 2)],
               "cyl3": [sp.cos(3 * x2) / 2 + sp.Rational(3, 2), lin[2]],
               "cyl2": [lin[1].subs(x2, x2)],
               "sph3": [sp.sin(x2) ** 2 + 1, sp.cos(2 * x3) / 2 + sp.Rational(3, 2)]}
    nd = SYSTEMS[system][0]
    if not radial:
        return lin[:nd]
    return [rad] + ang.get(system, [])[:nd - 1]


def build(system, fam, axis0):
    nd, h = SYSTEMS[system]
    J = JAC[system]
    co = X[:nd]
    fs = factors(system, fam, axis0)
    phis = sp.Mul(*fs)                      # steady solution
    phit = sp.exp(-t) * phis                # transient solution
    s = sum(co)
    D = 1 + sp.Rational(3, 10) * sp.sin(s + sp.Rational(1, 5)) if fam == 0 else sp.Rational(3, 2) + sp.cos(2 * s) / 2
    u = [sp.Rational(1, 2) + sp.Rational(3, 10) * sp.cos(s + i) for i in range(nd)] if fam == 0 else \
        [sp.Rational(-2, 5) + sp.Rational(1, 5) * sp.sin(2 * s - i) for i in range(nd)]
    if axis0:
        # regularity at the axis: radial velocity vanishes there (u_r ~ r)
        u[0] = u[0] * x1
    beta = sp.Rational(7, 10) + sp.Rational(1, 5) * sp.sin(s) if fam == 0 else sp.Rational(1, 2) + sp.Rational(1, 4) * sp.cos(s) ** 2

    def grad(f):
        return [sp.diff(f, co[i]) / h[i] for i in range(nd)]

    def div(F):
        return sum(sp.diff(J / h[i] * F[i], co[i]) for i in range(nd)) / J
    out = {}
    for nm, phi in (("s", phis), ("t", phit)):
        g = grad(phi)
        out["phi_" + nm] = phi
        out["divDgrad_" + nm] = div([D * gi for gi in g])
        out["divuphi_" + nm] = div([u[i] * phi for i in range(nd)])
        for i in range(nd):
            out["grad%d_%s" % (i, nm)] = g[i]
    out["dphidt_t"] = sp.diff(phit, t)
    out["D"] = D
    out["beta"] = beta
    for i in range(nd):
        out["u%d" % i] = u[i]
    return out, nd


def selfcheck():
    """Cross-check div(grad) in polar/cyl/spherical against the Cartesian Laplacian via the
    coordinate map, at a few rational points (exact)."""
    xx, yy, zz = sp.symbols("xx yy zz", real=True)
    f = sp.sin(xx) * sp.exp(yy / 2) + xx * yy * zz + zz ** 2 * yy
    lap = sp.diff(f, xx, 2) + sp.diff(f, yy, 2) + sp.diff(f, zz, 2)
    maps = {"cyl3": {xx: x1 * sp.cos(x2), yy: x1 * sp.sin(x2), zz: x3},
            "sph3": {xx: x1 * sp.sin(x2) * sp.cos(x3), yy: x1 * sp.sin(x2) * sp.sin(x3), zz: x1 * sp.cos(x2)}}
    for system, m in maps.items():
        nd, h = SYSTEMS[system]
        J = JAC[system]
        fc = f.subs(m)
        g = [sp.diff(fc, X[i]) / h[i] for i in range(nd)]
        dv = sum(sp.diff(J / h[i] * g[i], X[i]) for i in range(nd)) / J
        pt = {x1: sp.Rational(7, 5), x2: sp.Rational(4, 5), x3: sp.Rational(3, 10)}
        a = sp.N(dv.subs(pt), 30)
        b = sp.N(lap.subs(m).subs(pt), 30)
        assert abs(a - b) < 1e-20, (system, a, b)


def emit():
    selfcheck()
    pr = NumPyPrinter({"fully_qualified_modules": False})
    lines = ['"""GENERATED by tools/gen_mms.py (sympy %s) - do not edit.\n\nFUNCS[(system, family, axis0)][name](x1, x2, x3, t) -> numpy array"""' % sp.__version__,
             "import numpy", "from numpy import sin, cos, exp, sqrt, pi", "", "FUNCS = {}", "NDIM = {}", ""]
    for system in SYSTEMS:
        for fam in (0, 1):
            for axis0 in ((False, True) if system not in ("cart1", "cart2", "cart3", "polar", "cyl3", "sph3") else (False,)):
                exprs, nd = build(system, fam, axis0)
                tag = "%s_f%d_%s" % (system, fam, "axis" if axis0 else "off")
                names = []
                for nm, e in exprs.items():
                    fn = "_%s__%s" % (tag, nm)
                    code = pr.doprint(e)
                    lines.append("def %s(x1, x2, x3, t):" % fn)
                    lines.append("    return (%s) + 0.0*(x1 + x2 + x3)" % code)
                    lines.append("")
                    names.append((nm, fn))
                lines.append("FUNCS[(%r, %d, %r)] = {%s}" % (system, fam, axis0, ", ".join("%r: %s" % p for p in names)))
                lines.append("NDIM[%r] = %d" % (system, nd))
                lines.append("")
    return "\n".join(lines) + "\n"


if __name__ == "__main__":
    import os
    here = os.path.dirname(os.path.dirname(os.path.abspath(__file__)))
    path = os.path.join(here, "fvmc", "gen", "mms_sources.py")
    txt = emit()
    if "--check" in sys.argv:
        ok = os.path.exists(path) and open(path).read() == txt
        print("mms_sources.py up to date" if ok else "mms_sources.py DIFFERS from generator output")
        sys.exit(0 if ok else 1)
    open(path, "w").write(txt)
    print("wrote", path, len(txt), "bytes")
