#!/usr/bin/env python3
"""Apply a patch (or revert a fix commit) to a scratch copy of /repo and run checks on it.

usage: mutation_run.py [--tests] [--seeds 0,1] [--tier quick] <patch.diff | revert:<commit>> <ID> [<ID> ...]
The scratch copy lives under $VERIF_SCRATCH (default /var/tmp) and is removed afterwards.
Prints one line per (check, seed): DETECTED / MISSED, and the VIOLATION lines."""
import argparse, os, shutil, subprocess, sys, tempfile, json
ap = argparse.ArgumentParser()
ap.add_argument("--tests", action="store_true")
ap.add_argument("--seeds", default="0")
ap.add_argument("--tier", default="quick")
ap.add_argument("--keep", action="store_true")
ap.add_argument("patch")
ap.add_argument("ids", nargs="+")
a = ap.parse_args()
VERIF = os.path.dirname(os.path.dirname(os.path.abspath(__file__)))
scratch = tempfile.mkdtemp(prefix="fvmc-mut-", dir=os.environ.get("VERIF_SCRATCH", "/var/tmp"))
rc = 0
try:
    dst = os.path.join(scratch, "repo")
    subprocess.run(["git", "clone", "-q", "/repo", dst], check=True)
    # carry over uncommitted changes of /repo, if any
    d = subprocess.run(["git", "-C", "/repo", "diff", "HEAD"], capture_output=True, text=True).stdout
    if d.strip():
        subprocess.run(["git", "-C", dst, "apply"], input=d, text=True, check=True)
    if a.patch.startswith("revert:"):
        c = a.patch.split(":", 1)[1]
        p = subprocess.run(["git", "-C", "/repo", "show", c], capture_output=True, text=True, check=True).stdout
        subprocess.run(["git", "-C", dst, "apply", "-R"], input=p, text=True, check=True)
    else:
        subprocess.run(["git", "-C", dst, "apply", os.path.abspath(a.patch)], check=True)
    result = {"patch": a.patch, "tests_pass": None, "checks": {}}
    if a.tests:
        t = subprocess.run([sys.executable, os.path.join(VERIF, "tools", "run_baseline.py"), dst], capture_output=True, text=True)
        result["tests_pass"] = (t.returncode == 0)
        print("tests:", "PASS" if t.returncode == 0 else "FAIL", t.stdout.strip().splitlines()[0] if t.stdout.strip() else "")
    for pid in a.ids:
        for seed in a.seeds.split(","):
            env = dict(os.environ); env["VERIF_REPO"] = dst; env["VERIF_SEED"] = seed
            env["VERIF_NOEVIDENCE"] = "1"
            env.setdefault("VERIF_FAILFAST", "1")
            p = subprocess.run(["/venv/bin/python", "-m", "fvmc.run", pid, "--tier", a.tier], cwd=VERIF, env=env,
                               capture_output=True, text=True)
            viol = [l for l in p.stdout.splitlines() if l.startswith("VIOLATION")]
            herr = [l for l in p.stdout.splitlines() if l.startswith("HARNESS-ERROR")]
            det = p.returncode == 1 and viol
            print("%s seed=%s: %s (%d violation lines, exit %d)%s" % (pid, seed, "DETECTED" if det else "MISSED", len(viol), p.returncode,
                  " HARNESS-ERRORS=%d" % len(herr) if herr else ""))
            for l in viol[:4]: print("   ", l[:300])
            if p.returncode not in (0, 1): print(p.stderr[-1500:])
            result["checks"]["%s/%s" % (pid, seed)] = bool(det)
            if not det: rc = 2
    print("RESULT", json.dumps(result))
finally:
    if not a.keep:
        shutil.rmtree(scratch, ignore_errors=True)
sys.exit(rc)
