#!/usr/bin/env python3
"""Prints the markdown table of DESIGN.md section 0.2 from /verif/evidence/*.json (measured numbers of the last run)."""
import glob, json, os
V = os.path.dirname(os.path.dirname(os.path.abspath(__file__)))
print("| id | tier | cases | evaluations | non-trivial | states / transitions | known findings hit | wall |")
print("|----|------|-------|-------------|-------------|----------------------|--------------------|------|")
for f in sorted(glob.glob(os.path.join(V, "evidence", "C*.json"))):
    e = json.load(open(f))
    c = e["coverage"]
    st = "%s / %s" % (c.get("states", "-"), c.get("transitions", "-")) if c.get("states") else "-"
    print("| %s | %s | %s | %s | %s | %s | %d | %.0f s |" % (e["property_id"], e["tier"], c.get("cases"), c.get("evaluations"), c.get("distinct_nontrivial"), st,
                                                         len(c.get("known_findings_hit", [])), e["wall_s"]))
