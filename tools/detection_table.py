#!/usr/bin/env python3
"""Prints the markdown detection table (DESIGN.md section 10) from seeded/*/meta.json and mutation_report.json."""
import glob, json, os
V = os.path.dirname(os.path.dirname(os.path.abspath(__file__)))
print("| change | written by | breaks | needs | pinned tests | detected by (quick) | missed by |")
print("|---|---|---|---|---|---|---|")
for f in sorted(glob.glob(os.path.join(V, "seeded", "*", "meta.json"))):
    d = json.load(open(f))
    det = [k for k, v in d.get("checks", {}).items() if v["detected"]]
    mis = [k for k, v in d.get("checks", {}).items() if not v["detected"]]
    print("| seeded/%s | sub-agent (property text only) | %s | %s | %s | %s | %s |" % (
        d["name"], d["breaks_property"], d["needs_to_manifest"][:110], "pass" if d.get("pinned_tests_pass") else "FAIL",
        ", ".join(det) or "-", ", ".join(mis) or "-"))
rep = os.path.join(V, "mutation_report.json")
if os.path.exists(rep):
    for e in json.load(open(rep))["entries"]:
        ch = e.get("checks") or {}
        det = sorted({k.split("/")[0] for k, v in ch.items() if v})
        mis = sorted({k.split("/")[0] for k, v in ch.items() if not v})
        who = "revert of a fix: commit" if e["mutant"].startswith("revert:") else "hand-written mutant"
        print("| %s | %s | - | %s | %s | %s | %s |" % (e["mutant"][:80], who, e.get("note", "-"), {True: "pass", False: "FAIL", None: "n/a"}[e.get("tests_pass")],
                                                   ", ".join(det) or "-", ", ".join(mis) or "-"))
