#!/usr/bin/env python3
"""Runs the mutation campaign: every patch in /verif/mutants and the revert of every fix: commit
of /repo, each against the checks expected to detect it (and optionally the pinned test suite).
Writes /verif/mutation_report.json (or $OUT).  usage: mutation_campaign.py [--tests] [--only substr]"""
import json, os, subprocess, sys, glob, re, time
VERIF = os.path.dirname(os.path.dirname(os.path.abspath(__file__)))
EXPECT = {
 "m01": ["C15", "C04"], "m02": ["C04", "C12", "C06"], "m03": ["C14", "C09"], "m04": ["C09"], "m05": ["C09", "C03"],
 "m06": ["C15", "C11"], "m07": ["C15", "C05"], "m08": ["C12", "C15", "C09"], "m09": ["C12", "C06"],
 "m10": ["C05", "C01", "C02"], "m11": ["C03", "C02", "C14"], "m12": ["C14"], "m13": ["C13", "C05"], "m14": ["C17", "C05"],
 "m15": ["C16"], "m16": ["C10", "C01"], "m17": ["C03", "C01", "C08"],
 "m19": ["C07", "C05", "C06"], "m20": ["C08", "C05"], "m21": ["C02", "C01", "C05"], "m22": ["C11"], "m23": ["C16"],
 "m24": ["C06", "C04"], "m25": ["C10"], "m26": ["C13"], "m27": ["C03", "C17"], "m28": ["C17", "C05"], "m29": ["C14"],
 "m30": ["C12", "C04"],
}
REVERT = {  # fix commit subject fragment -> checks
 "diffusionTermPolar2D": ["C05", "C01", "C06", "C02"], "west-face weight": ["C05", "C01", "C06"], "back-neighbour": ["C05", "C01", "C08"],
 "boundary correction of convectionUpwindTermCylindrical1D": ["C05", "C01"], "divergenceTermSpherical1D": ["C05", "C01", "C12"],
 "convectionTvdRHSSpherical1D": ["C05", "C17"], "convectionTvdRHSSpherical3D": ["C05", "C17", "C01"],
 "upwind-direction argument": ["C05", "C17"], "zero upwind direction": ["C05"], "HCUS": ["C13", "C05"], "documented TypeError": ["C16"],
 "component labels": ["C16", "C10"], "constructor arity": ["C16"], "front/back periodic": ["C03", "C08", "C01"],
 "returned by solveExplicitPDE": ["C09", "C12"], "harmonicMean": ["C11"], "faceLocations": ["C15"], "logical operators": ["C14"],
 "CellVariable stores its values as floats": ["C09"], "BoundaryFace stores integer": ["C09"],
}
args = sys.argv[1:]
tests = "--tests" in args
only = args[args.index("--only") + 1] if "--only" in args else None
out = os.environ.get("OUT", os.path.join(VERIF, "mutation_report.json"))
jobs = []
for p in sorted(glob.glob(os.path.join(VERIF, "mutants", "*.diff"))):
    key = os.path.basename(p)[:3]
    jobs.append((os.path.basename(p), p, EXPECT.get(key, [])))
log = subprocess.run(["git", "-C", "/repo", "log", "--format=%h %s"], capture_output=True, text=True).stdout.splitlines()
for line in log:
    h, subj = line.split(" ", 1)
    if not subj.startswith("fix:"):
        continue
    for frag, ids in REVERT.items():
        if frag in subj:
            jobs.append(("revert:%s %s" % (h, subj[:70]), "revert:" + h, ids))
report = []
# resume: entries already in $OUT are kept; CAMPAIGN_ONLY_DETECTING=1 runs, per change, the checks that detected it in the
# committed report (a miss costs a complete enumeration) - the others keep their recorded verdict
done = {}
if os.path.exists(out) and os.environ.get("CAMPAIGN_RESUME"):
    report = json.load(open(out))["entries"]
    done = {e["mutant"] for e in report}
old = {}
try:
    for e in json.load(open(os.path.join(VERIF, "mutation_report.json")))["entries"]:
        old[e["mutant"].split(" ")[0]] = e
except Exception:
    pass
for name, patch, ids in jobs:
    if only and only not in name:
        continue
    if not ids or name in done:
        continue
    carried = {}
    if os.environ.get("CAMPAIGN_ONLY_DETECTING") and name.split(" ")[0] in old and old[name.split(" ")[0]].get("checks"):
        och = old[name.split(" ")[0]]["checks"]
        keep = [i for i in ids if och.get(i + "/0")]
        carried = {k: v for k, v in och.items() if k.split("/")[0] not in keep and not v}
        ids = keep or ids[:1]
    t0 = time.time()
    cmd = [sys.executable, os.path.join(VERIF, "tools", "mutation_run.py")] + (["--tests"] if tests else []) + [patch] + ids
    p = subprocess.run(cmd, capture_output=True, text=True)
    res = None
    for l in p.stdout.splitlines():
        if l.startswith("RESULT "):
            res = json.loads(l[7:])
    viol = [l.strip()[:260] for l in p.stdout.splitlines() if l.strip().startswith("VIOLATION")]
    if res and carried:
        res["checks"].update(carried)
    if res and res.get("tests_pass") is None and name.split(" ")[0] in old:
        res["tests_pass"] = old[name.split(" ")[0]].get("tests_pass")
    entry = {"mutant": name, "tests_pass": res and res.get("tests_pass"), "checks": res and res.get("checks"),
             "carried_over_misses": sorted(carried) if carried else [],
             "first_violations": viol[:6], "wall_s": round(time.time() - t0, 1)}
    report.append(entry)
    print(json.dumps(entry)[:400], flush=True)
    json.dump({"generated_by": "tools/mutation_campaign.py", "entries": report}, open(out, "w"), indent=1)
