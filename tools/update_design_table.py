#!/usr/bin/env python3
"""Replaces the table of DESIGN.md section 10 by the output of tools/detection_table.py."""
import os, subprocess, sys
V = os.path.dirname(os.path.dirname(os.path.abspath(__file__)))
p = os.path.join(V, "DESIGN.md")
s = open(p).read()
head = "| change | written by | breaks | needs | pinned tests | detected by (quick) | missed by |"
i = s.index(head)
table = subprocess.run([sys.executable, os.path.join(V, "tools", "detection_table.py")], capture_output=True, text=True, check=True).stdout
open(p, "w").write(s[:i] + table)
print("section 10 table replaced (%d rows)" % (table.count("\n") - 2))
