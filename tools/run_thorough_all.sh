#!/bin/bash
# Runs every thorough command (cheap ones first) without touching the evidence files; one summary line per check.
cd "$(dirname "$0")/.."
for c in C10 C16 C13 C17 C14 C08 C11 C06 C12 C07 C03 C04 C15 C09 C05 C01 C02; do
  t0=$(date +%s)
  out=$(VERIF_NOEVIDENCE=1 /venv/bin/python -m fvmc.run $c --tier thorough 2>&1)
  rc=$?
  echo "$c exit=$rc $(( $(date +%s) - t0 ))s :: $(echo "$out" | grep -v '^KNOWN\|WARNING' | tail -1 | cut -c1-220)"
  echo "$out" | grep "^VIOLATION\|^HARNESS" | head -5 | cut -c1-400
done
echo THOROUGH-DONE
