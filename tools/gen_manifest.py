#!/usr/bin/env python3
"""Regenerates /verif/MANIFEST.json from the table below (kept valid at all times)."""
import json, os
HERE = os.path.dirname(os.path.dirname(os.path.abspath(__file__)))
PY = "/venv/bin/python"

CHECKS = {
 "C05": dict(
   engine="A-opcheck",
   technique="bounded exhaustive enumeration of (grid instance x unit face field x unit cell field) on the real operators; metamorphic matrix-vs-explicit-chain oracle",
   text="Every grid instance with <=3 cells per axis (9 classes, uniform/irregular spacing, radial origin 0/offset) is enumerated and on each the identity is decided for all fields and coefficient fields by evaluating it on the full basis (every unit face field x every unit cell field incl. ghost cells); TVD identities over all {0,1,2}-valued line fields x limiters. Exhaustive within the stated bounds, no sampling.",
   note="Assumes bilinearity of the operators (checked by C17b) so that the basis decides all fields; grids larger than the bound are not explored (3-point stencils: all first/interior/last roles occur for N<=3).",
   ref="DESIGN.md 4/C05"),

 "C13": dict(
   engine="D-tables",
   technique="complete finite table (16 limiters x r-alphabet covering every region of every piecewise-rational formula) against exact-rational closed forms; exhaustive enumeration of all {0..3}-valued line fields for TVD totality",
   text="All 16 names are evaluated on an r-alphabet containing every breakpoint/zero of the published formulas, their floating-point neighbours, region midpoints, a dense dyadic grid over [-1000,1000] and +-10^k (|k|<=100), and compared with the published closed forms in exact rational arithmetic; TVD bounds, psi(1)=1, clipping zero, elementwise shapes, SUPERBEE fallback; the TVD correction is evaluated for every field over {0,1,2,3} on lines of N+2 cells on all 9 classes x 16 limiters x 3 velocity patterns. Complete within the alphabet; the statement for all reals rests on the stated region-cover assumption.",
   note="Finite alphabet instead of all reals (region-cover assumption recorded in the evidence); reference formulas transcribed from the Wikipedia table the library cites.",
   ref="DESIGN.md 4/C13"),

 "C10": dict(
   engine="D-tables",
   technique="complete finite table over (class x constructor form x N in {1..4}^d x spacing template x radial origin) against per-cell geometric closed forms",
   text="Every grid instance of the bound is constructed in both constructor forms and every reported face, centre, size and cell volume is compared per cell with the geometric closed form of the class's coordinate system; positivity and the domain total are checked; label reachability is decided on the complete 9x3x6 table. Exhaustive within the bound.",
   note="Closed forms evaluated in double precision (64-ulp tolerance); bound N<=4 per axis and three spacing templates; grids outside the bound not explored (geometry code is per-axis and index-uniform).",
   ref="DESIGN.md 4/C10"),
 "C16": dict(
   engine="D-tables",
   technique="complete finite tables (labels get/set, periodic-flag subsets x operations, initial-value shape families, constructor arity 0..7, BC coefficient kinds, equation-term kinds, all builders on N in {1,2,3}^d) against the documented exception types",
   text="All rows of the finite tables named in the property are executed on the real API and the raised exception type (or acceptance) is compared with the documented one. Exhaustive over the tables; nothing is sampled.",
   note="Expected exception types are read off the library's own raise statements and docstrings; the 6-argument direct-initialisation overload is not treated as an arity error.",
   ref="DESIGN.md 4/C16"),

 "C01": dict(
   engine="A-opcheck + B-cfgsolve",
   technique="bounded exhaustive enumeration: (grid instance x unit face field x unit cell field) for the volume-weighted column sums; closure kind per axis x term subset x dt x scheme for 3-step solver histories; residual oracles for recorded findings",
   text="On every grid instance of the bound the cellvolume-weighted column sums of every flux-form operator are evaluated for every unit face coefficient and every unit cell field (ghosts included): zero for interior faces, +-area*reference flux for boundary faces; TVD corrections for all {0,1,2} line fields x limiters; periodic closure with wrapped ghosts; then all closed configurations (no-flux/periodic per axis) x 6 term subsets x dt in {2^-10,1,2^10} x implicit/explicit x 3 steps, and open (Dirichlet/Robin) configurations with the boundary-flux balance. Exhaustive within these bounds.",
   note="Bilinearity of the operators (C17b) makes the basis decisive; solver-level tolerance is 64*eps*cond(M); three recorded findings (SphericalGrid3D cellvolume, upwind+periodic seam, periodic with unequal end cells) are matched by key and must still satisfy their residual oracle.",
   ref="DESIGN.md 4/C01"),
 "C06": dict(
   engine="A-opcheck + B-cfgsolve",
   technique="bounded exhaustive enumeration: every unit face field x sign for the constant-field identities; every unit stream function (node/edge basis of the discretely solenoidal fields) x dt alphabet x alpha kind x scheme x BC set-up for the fixed-point property",
   text="Constant-in-kernel and c*div(u) identities are decided on the full face basis of every grid instance; the steady-state property is run for every element of a basis of the discretely divergence-free velocity fields (unit nodal/edge stream functions, 1-D q/A) with every dt of the alphabet, scalar and per-cell alpha, upwind and central advection, Dirichlet and mixed no-flux boundaries; source terms with all-distinct beta, gamma. Exhaustive within the bounds.",
   note="Solenoidal fields are built with the mid-point face areas implied by the library's divergenceTerm and the construction is asserted (divergenceTerm(u)==0) case by case; solver tolerance 64*eps*cond(M)*|c| - ill-conditioned dt values are reported as preconditions_failed.",
   ref="DESIGN.md 4/C06"),

 "C09": dict(
   engine="C-histbfs",
   technique="explicit-state breadth-first search over operation histories on the real objects (two variable slots, ~70-operation menu, three roots), states merged by a canonical key, invariants evaluated once per state on objects rebuilt from scratch; differential oracle against a freshly constructed variable",
   text="All histories over the edit/solve menu (BC utility methods, coefficient assignment/slice/index, periodic toggle, value assignment/index/in-place add, update_value, copy, arithmetic, sharing a BC object, fresh construction in both styles, apply_BCs, solvePDE, solveExplicitPDE into the same or the other slot) are explored breadth-first to the stated depth on each grid; in every reachable state solvePDE / solveExplicitPDE / apply_BCs on each live variable must equal the same call on a freshly constructed variable with the same visible state, no supported operation may raise, and variables that do not deliberately share a BC object must be independent. States, transitions, depth completed and whether the frontier closed are reported.",
   note="State merging ignores interior values (no library code branches on them; fields are generic so staleness is visible); successor generation uses deepcopy but every state's invariants are evaluated on a world replayed from scratch; bound = depth and the finite edit alphabet; one recorded finding (shared BC object: dirty bits cleared by another variable) is matched by a history predicate and must satisfy its residual oracle.",
   ref="DESIGN.md 4/C09"),
 "C11": dict(
   engine="A-opcheck",
   technique="bounded exhaustive enumeration per grid instance: every face x every {1,2,4}-assignment to its two cells; every (cell, face) perturbation pair for locality; every line field over {0,1,2,4} for the 1-D/2-D/3-D agreement; velocity sign per face in {+,-,0}",
   text="On every grid instance each averaging function is compared face by face with loop-based width-weighted means; bounds, constants, harmonic<=geometric<=arithmetic, exactness of linearMean on linear fields, the donor/boundary/zero rules of upwindMean with one face at a time in {+1,-1,0}, locality over all (cell, face) pairs and agreement of the 1-D, 2-D and 3-D variants on all lifted line fields over {0,1,2,4} (zeros included). Exhaustive within the bounds.",
   note="Reference weights taken from the library docstrings; zero handling follows the 1-D convention (zero in either adjacent cell gives 0).",
   ref="DESIGN.md 4/C11"),

 "C15": dict(
   engine="C-histbfs",
   technique="exhaustive enumeration of all call sequences up to length 2 (thorough 3) over the full menu of 34 public builders/solvers on the real objects, of all (builder, in-place input edit, builder) sequences and of all (builder on another mesh, builder) sequences, with frozen inputs, byte snapshots and differential comparison against a fresh world",
   text="Every ordered sequence of public builder/solver calls up to the length bound is executed on 9 classes x 2 shapes; at every call the byte snapshot of everything reachable from the inputs (mesh, coefficient variables, BCs incl. dirty bits, cached BC terms, prebuilt terms) must be unchanged, the inputs are made read-only so an in-place write raises, the result must be bit-identical to the same call in a fresh world (catches hidden module-level/cached state for all ordered pairs) and must not alias mesh storage; reused terms across solves equal rebuilt terms. States (sequence prefixes) and transitions (calls) are reported.",
   note="Sequences longer than the bound and argument values outside the fixed generic inputs are not explored; sharing a BC object with a constructor argument is by design and not reported.",
   ref="DESIGN.md 4/C15"),

 "C14": dict(
   engine="C-histbfs",
   technique="complete enumeration of operator x operand-kind x class x BC set-up and of all expression trees up to depth 2 (thorough 3) over that alphabet, executed on the real objects with frozen operands, numpy reference on interiors and cross-modification probes",
   text="Every binary operator (+ - * / ** > >= < <= & |) in every operand arrangement (variable-variable, variable-scalar, scalar-variable, variable-ndarray), neg/abs, funceval/celleval/faceeval with 1..8 arguments and copy() are executed for CellVariables on 9 classes x 3 BC set-ups and FaceVariables on 9 classes, and all expression trees of the depth bound are enumerated; each result is compared with numpy on the interiors, operands must be byte-identical (they are read-only during the call), results must share no memory with operands, modifications must not propagate in either direction, and the result must carry the left-most variable operand's BCs with a consistent ghost layer. Exhaustive over the alphabet.",
   note="ndarray operands on the right only; user functions passed to *eval return new arrays; tree depth bounded (2 quick / 3 thorough).",
   ref="DESIGN.md 4/C14"),

 "C03": dict(
   engine="B-cfgsolve",
   technique="configuration lattice enumerated to a deviation bound (kind per side in {N0,D,N,R,R2}, <=2 deviations from all-default plus uniform vectors; thorough: full product for d<=2) x periodic subsets x fields x the four ghost-computing operations, every boundary face checked against a loop-free reference relation",
   text="For every grid instance of the bound every configuration of boundary kinds within the deviation bound, every periodic subset of the non-radial axes, generic and unit interior fields and each of construction / apply_BCs after edits / solvePDE / solveExplicitPDE is executed and every boundary face is checked: Robin relation with the metric factor, exact wrap on periodic axes and only there, plotprofile boundary entries, zero residual of the solver's boundary rows on the reported array, invariance under scaling (a,b,c). Exhaustive within the deviation bound.",
   note="Only non-singular coefficient choices are generated (checked per face); quick uses deviation bound 2 (3-D solves: 1) and three spacing vectors per shape; one recorded finding (periodic axis with unequal end cells).",
   ref="DESIGN.md 4/C03"),

 "C04": dict(
   engine="B-cfgsolve",
   technique="exhaustive enumeration of programs: all ordered term lists up to length 3 (thorough 4) over a 16-kind term alphabet; all length-3 sequences of solves on one variable over a 7-system alphabet x class x shape x BC set-up, executed with a spy solver against an independently accumulated dense system",
   text="Every ordered term list within the length bound (matrix, vector, (matrix, vector) pairs, negated, scaled, plain tuple, SignedTuple and its negation; one mandatory well-conditioned base term at a varying position) is solved on 9 classes x 2 shapes x 3 BC set-ups; solvePDE must return its argument, the spy solver must have received exactly the hand-assembled system and its answer must be what the variable holds, residuals of interior and boundary rows must vanish, the result must equal solveMatrixPDE of the hand-assembled system and be independent of the term order; ghost rows of every builder are exactly zero on every grid instance; the solution is the superposition of unit-source, unit-boundary-datum and unit-previous-value solutions. Exhaustive over programs within the bound.",
   note="Programs whose assembled matrix is ill-conditioned (cond*eps > 1e-6) are reported as preconditions_failed; periodic set-ups use equal end cells (unequal ends are C03's recorded finding).",
   ref="DESIGN.md 4/C04"),
 "C12": dict(
   engine="B-cfgsolve",
   technique="configuration lattice (class x shape x spacing x BC set-up x term subset x alpha kind) enumerated completely, each with the full 14-value dt alphabet, all 8 implicit/explicit step sequences of length 3 and all three-step time loops over a 7-action alphabet of coefficient-object histories",
   text="For every configuration the backward-Euler residual form is evaluated in every interior cell for every dt of the 12-decade alphabet, the steady solution must be a fixed point for every dt and alpha (scalar and per cell), the limits dt=2^40 / 2^-40 must return the steady solution / the old field within first-order bounds, solveExplicitPDE must equal old+dt*RHS with re-imposed boundary values and leave its clean input byte-identical, explicit and implicit steps must differ by O(dt^2) (ratio >= 3.5 per halving in the asymptotic range) and every mixed sequence of three steps must satisfy the per-step oracles. Exhaustive over the lattice and the dt alphabet.",
   note="Continuous dt range represented by a finite alphabet (10^-6..10^5, 2^+-40); tolerances 64*eps*cond of the row-equilibrated system; periodic set-ups use equal end cells.",
   ref="DESIGN.md 4/C12"),
 "C17": dict(
   engine="B-cfgsolve + A-opcheck",
   technique="metamorphic enumeration: every configuration of the reduced lattice is executed under every (L,T,K) triple of the scale alphabet (exact powers of two, plus decimal factors) and compared with the unscaled run; linearity decided on all unit coefficient fields x scales and all pairs of unit coefficient fields",
   text="Each configuration (9 classes x spacing x origin x 3 BC set-ups x 6 term subsets incl. TVD x implicit/explicit, 3 steps) is re-run with every input rescaled by its physical dimension; for power-of-two factors the solution divided by K must agree to 4 ulp, for decimal factors to 64*eps*cond. Homogeneity T(lambda e_f)=lambda T(e_f) (exact) and additivity T(e_f+e_g)=T(e_f)+T(e_g) are checked for every unit face coefficient and every pair on every grid instance of the linearity bound (upwind at fixed upwind direction). Exhaustive within the alphabets.",
   note="Scale factors over +-6 decades represented by {2^-20,2^-7,2^3,2^20} and {1e-6,1e-3,1e3,1e6}; quick uses 14 triples, thorough all 64 + 10.",
   ref="DESIGN.md 4/C17"),

 "C07": dict(
   added=" Velocities are built by FaceVariable arithmetic (2u - u + 0) and must equal u. Velocity magnitudes 4, 4*2^12 (cell Peclet ~1e4) and 4*2^-40 as a fifth lattice dimension; thin 2-D/3-D shapes; the periodic axis rotates over the candidates.",
   engine="B-cfgsolve",
   technique="configuration lattice with deviation bound over (BC set-up, D pattern, sink, dt, +-every element of a basis of the admissible discretely solenoidal velocities); per configuration the complete solution operator is obtained from the library-assembled system and checked for sign and row sums",
   text="Because the update is linear, the maximum principle for every initial field and every Dirichlet datum is equivalent to entrywise non-negativity and row sums <= 1 of the solution operator; that operator is computed for every configuration within the deviation bound (4 BC set-ups incl. periodic and walls, 5 diffusivity patterns incl. a zero face and 10^6 contrast, sink on/off, dt over 8 decades, zero velocity and +-each unit stream function / through-flow admissible for the set-up) from the system captured during a real solvePDE call whose own answer is cross-checked; a real two-step run from a unit field confirms the bound dynamically. Exhaustive within the deviation bound.",
   note="cond*eps > 1e-4 configurations are counted as preconditions_failed; the dense inverse of the captured matrix supplies all columns at once (SuperLU's answer for a generic field is compared with it in each configuration); velocity magnitudes are O(1).",
   ref="DESIGN.md 4/C07"),
 "C08": dict(
   added=" D and u are passed through the library's FaceVariable arithmetic (exact for the dyadic values). Periodic axes declared on both faces / the low face / the high face in permutations and shifts (the transformed problem another way); boundary values along a periodic axis are the wrapped interior.",
   engine="B-cfgsolve",
   technique="metamorphic enumeration: every transformation (6 embedding pairs x position x N_red x spacing x closure x u_red; all axis permutations; every mirror; every cyclic shift) x 4 BC kind vectors x 7 term subsets (3 limiters), both problems solved by the real library for 2 steps",
   text="Each transformation of the property is instantiated on every reduced configuration and original and transformed problems are solved with the real library; the solution on the higher-dimensional grid must be constant along the redundant axis and equal to the reduced solution including ghost layers, permuted/mirrored/shifted problems must give permuted/mirrored/shifted solutions, to 64*eps*cond. Exhaustive over the transformation and configuration alphabets.",
   note="Reduced shapes (3,) and (2,3); N_red<=3; spherical 3-D -> 1-D not demanded; shifts with upwind/TVD are a recorded finding (periodic seam).",
   ref="DESIGN.md 4/C08"),

 "C02": dict(
   engine="B-cfgsolve",
   technique="configuration lattice (class x radial origin x grading x BC kind vector within a deviation bound x term set x solution family) enumerated completely; each configuration is a 3-level refinement ladder solved by the real library against a sympy-generated manufactured solution; observed order as oracle",
   text="Every configuration of the lattice is solved on a ladder of three (thorough: four) resolutions with sources and Dirichlet/Neumann/Robin data generated symbolically from the continuous operator of the class's coordinate system; the observed order must be >= 1.3 (max norm) / 1.5 (L2) for second-order term sets (diffusion, +central, +linear source, +transient with dt ~ h^2) and first-order consistent for upwind. A wrong metric factor, sign or coefficient placement yields an error plateau (order ~ 0). Exhaustive over the configuration lattice; the limit statement itself is only decided in this bounded form.",
   note="Bounded form of a limit statement: 2 solution families, 3-4 resolutions; trusted base: sympy calculus and the transcription of div/grad in curvilinear coordinates (cross-checked against the Cartesian Laplacian in the generator); thresholds frozen after one calibration; upwind ladders inside the first-order envelope 0.1*h*max|phi| are accepted.",
   ref="DESIGN.md 4/C02"),
}
NOT_YET = {}

GRIDS = (" Grid instances of the shared enumeration (fvmc/universe.py grid_specs): cells per axis 1..3 in every combination, spacing templates uniform/irregular "
         "(thorough: +geometric), radial origin 0/offset, plus every shape once through the (N, L) constructor form, shapes with 4-6 cells, the same grids in "
         "length units of 2^-30 and 2^40 (exact rescaling) and nearly equispaced faces (1e-6 relative deviations); grids with 40/133, 17x13, 7x6x5 cells are "
         "evaluated on generic fields, fields varying along one axis only, Fortran-ordered / strided coefficient arrays and all combinations of one flow "
         "direction (+, -, 0) per axis instead of the full basis.  Periodic axes are declared on the low face, the high face or both.")
# what the fourth round of extensions added to each enumeration (appended to the level text)
ADDED = {
 "C01": GRIDS,
 "C05": GRIDS + " Upwind identities also for velocities and explicit upwind-direction fields of magnitude 2^-40, 2^-70, 2^50.",
 "C06": GRIDS + " Constants are advected as c*div(u) also with a separate upwind-direction field. One long-lived velocity object is re-assembled after in-place edits (sign flip, 2^-40 / 2^45 scaling, zero).",
 "C11": GRIDS + " Zeros of either sign in adjacent cells. Means on values of magnitude 2^-40 / 2^60 and constants 1e-9..2.5e14; upwindMean for velocities down to the smallest subnormal.",
 "C04": GRIDS.replace("Grid instances", "Ghost-row part: grid instances") + " All sequences of three solves on ONE variable (built-in solver) over 7 systems that differ by a few ppm, "
        "by a factor, in the sources only, in sparsity, or are expressed in units with coefficients ~1e-9; the caller's term list must be left alone; +SignedTuple; "
        "solveMatrixPDE with an external solver; three term kinds with structural zeros (axis-only velocity / diffusivity); programs with one and the same term "
        "object at repeated positions; prior content of the solution variable generic / NaN / inf / -1e30; byte fingerprint of every term array before/after each solve; resolve part with a BC-sharing variable refreshed explicitly.",
 "C03": " Periodic axes declared on the low face / the high face / both (alternating on multi-axis subsets); the interior equations evaluated with the "
        "reported boundary values must be satisfied after solvePDE, also when a second variable was constructed with the same BC object after an edit. Also: the same problems with lengths x 2^-30 / 2^40 and values x 2^-40 / 2^30 (a and c rescaled with them), and integer/bool-typed initial arrays.",
 "C09": " Menu also contains re-assignments that differ by a few ppm / 1e-9 and augmented assignment of coefficients; roots include an integer-typed initial array "
        "on a periodic domain (dtype is part of the state key); every value edit has a postcondition (the interior values read back are the ones assigned); complete "
        "tables 'initial-value form x BC style x value edit' and 'boundary-face form x coefficient edit' on all nine classes.",
 "C10": " Also: nearly equispaced template, every grid in length units 2^-30 / 2^-60 / 2^40, integer-typed face arrays and numpy-integer cell counts, (N,L) lengths 2^-30 and 3e9, "
        "grids with up to 133 cells per axis; the (N, L) form for every N from 1 to 300 along each axis x 8 lengths; geometry re-read after in-place edits of location variables; every grid with grids of each other class built before and after it.",
 "C12": " Also: all three-step time loops on one solution variable in which the coefficient object alpha (scalar / ndarray / CellVariable) is kept, edited in place by 50% or "
        "by ppm, refreshed with apply_BCs, assigned, advanced by its own solvePDE or replaced between the steps (7x7 histories) x 4 dt patterns x {term list rebuilt, one list "
        "reused, reused source vectors first}; old fields given with NaN / inf ghost cells; default alpha; alpha fields varying along one axis only; dt and alpha given as int / numpy integer / float32 / bool; "
        "the periodic axis rotates over the candidate axes and flag modes.",
 "C13": " Also: the gradient ratio given in every numeric container (int64/int32/int8/float32 arrays of rank 0-3, Python and NumPy scalars, strided / reversed / transposed / "
        "Fortran-ordered / read-only views); the argument must not be written to.",
 "C14": " Also: operands whose values coincide exactly with the scalar operands, zeros of both signs, the smallest subnormal, integer-typed ndarrays; results must be numpy's "
        "including the sign of zeros, NaN and infinities; FaceVariable constructor forms (scalar, list, tuple, ndarray, integer); copy() of variables built with ghost cells / returned by "
        "solveMatrixPDE / edited and not refreshed.",
 "C15": " Also: for every builder and 11 documented in-place edits of its inputs (velocity sign flip / scaling / zero / assignment through the label setters, D scaling, "
        "value edits + apply_BCs, BC edits incl. ppm): call, edit, call again == edit, call, bit for bit, and the inputs are left identical; every builder on a second mesh with "
        "the same cell counts (other spacing, other length unit, other constructor form, other grid class) used first in the same session (both meshes are then "
        "used); the term list container is unchanged; all inputs in Fortran order / as strided views / as negative-stride views give bit-identical results; "
        "inputs whose ghost layer is given (ghost-including array, solveMatrixPDE result) and a field with exact zeros.",
 "C16": " Also: 21 kinds of non-array objects (Python and NumPy scalars, memoryview, range, ...) as each single boundary coefficient and as all three; such a face must never end "
        "up in a solved problem; unknown terms at every position of four list contexts (with a genuine pair, with a transient term, alone); every per-axis mixture "
        "of N and N+2 as initial-array shape.",
 "C17": " Term by term: every grid instance of the linearity bound in length units 2^-7 / 2^3 with D x L^2 and u x L gives bit-identical diffusion / central / upwind "
        "matrices, TVD vectors (3 limiters, all combinations of one flow direction per axis) and divergence, and a gradient scaled by 1/L. Also six extreme unit systems (lengths down to 2^-40, values down to 2^-70, everything x 2^50) for the term sets without the TVD correction. Both the solver-level and the term-level relation are also evaluated on grids built with the (N, L) constructor form with a different cell width on every axis.",
 "C02": " Graded ladders are not end-symmetric (first cell wider than the last one, interior ratios vary).",
}

def main():
    props = [json.loads(l)["id"] for l in open(os.path.join(HERE, "properties.jsonl"))]
    checks = []
    for pid in props:
        if pid not in CHECKS:
            continue
        c = CHECKS[pid]
        checks.append({
            "property_id": pid,
            "quick_cmd": f"{PY} -m fvmc.run {pid} --tier quick",
            "thorough_cmd": f"{PY} -m fvmc.run {pid} --tier thorough",
            "evidence_file": f"/verif/evidence/{pid}.json",
            "replay_cmd_template": f"{PY} -m fvmc.replay {{path}}",
            "engine": c["engine"],
            "level_claimed": {"category": "model_checking", "text": c["text"] + ADDED.get(pid, "") + c.get("added", ""), "design_ref": c["ref"]},
            "level_note": c["note"],
            "technique": c["technique"],
        })
    na = [{"property_id": p, "reason": NOT_YET.get(p, "check not built yet in this revision (see DESIGN.md section 9); not claimed")}
          for p in props if p not in CHECKS]
    man = {
        "version": 1,
        "setup_cmd": f"{PY} -m fvmc.selftest",
        "hooks": {"guard": "PYFVTOOL_VERIF", "enable": "no source hooks exist; checks import /repo/src directly (VERIF_REPO overrides) and set PYFVTOOL_VERIF=1",
                  "baseline_off_cmd": "cd /repo && /venv/bin/python -m pytest -ra -q -p no:cacheprovider --timeout=900 --continue-on-collection-errors",
                  "source_commits": [], "add_only": True},
        "engines": [
            {"name": "A-opcheck", "path": "fvmc/opkit.py", "serves_properties": ["C01", "C05", "C06", "C11", "C17"], "kind_free_text": "basis-exhaustive operator algebra on every bounded grid instance"},
            {"name": "C-histbfs", "path": "fvmc/histbfs.py", "serves_properties": ["C09", "C14", "C15"], "kind_free_text": "explicit-state BFS over public-API operation histories on the real objects, canonical-key merging, per-state invariants, from-scratch replay"},
            {"name": "B-cfgsolve", "path": "fvmc/checks", "serves_properties": ["C01", "C02", "C03", "C04", "C06", "C07", "C08", "C12", "C17"], "kind_free_text": "configuration lattice (class x shape x spacing x BC kind per side x term subset x dt ...) enumerated completely or to a stated deviation bound, each configuration run from scratch on the real solver"},
            {"name": "D-tables", "path": "fvmc/checks", "serves_properties": ["C10", "C13", "C16"], "kind_free_text": "complete finite tables against closed-form references"},
            {"name": "harness", "path": "fvmc/harness.py", "serves_properties": props, "kind_free_text": "deterministic case enumeration, parallel execution, known-findings matching, replay + evidence"},
        ],
        "checks": checks,
        "not_applicable": na,
        "notes": "All checks: python -m fvmc.run <ID> --tier quick|thorough (cwd /verif). Replay: python -m fvmc.replay <file>. Known findings: /verif/known_findings.json.",
    }
    with open(os.path.join(HERE, "MANIFEST.json"), "w") as f:
        json.dump(man, f, indent=1)
    print("wrote MANIFEST.json with", len(checks), "checks;", len(na), "not claimed")

if __name__ == "__main__":
    main()
