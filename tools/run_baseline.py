#!/usr/bin/env python3
"""Runs the pinned test command on a tree (default /repo) and compares with BASELINE.json.
usage: run_baseline.py [repo_dir]   -> exit 0 iff every stable_pass test passes."""
import json, os, subprocess, sys, tempfile, xml.etree.ElementTree as ET
repo = sys.argv[1] if len(sys.argv) > 1 else "/repo"
base = json.load(open("/root/.vp/BASELINE.json"))
fd, xmlp = tempfile.mkstemp(suffix=".xml", dir="/var/tmp"); os.close(fd)
env = dict(os.environ); env["PYTHONPATH"] = os.path.join(repo, "src"); env.pop("PYFVTOOL_VERIF", None)
env["MPLBACKEND"] = "Agg"
p = subprocess.run(["/venv/bin/python", "-m", "pytest", "-ra", "-q", "-p", "no:cacheprovider", "--timeout=900",
                    "--continue-on-collection-errors", "--junitxml=" + xmlp], cwd=repo, env=env,
                   capture_output=True, text=True)
passed = set()
try:
    for tc in ET.parse(xmlp).getroot().iter("testcase"):
        if not any(ch.tag in ("failure", "error", "skipped") for ch in tc):
            passed.add("%s::%s" % (tc.get("classname"), tc.get("name")))
finally:
    os.unlink(xmlp)
missing = [t for t in base["stable_pass"] if t not in passed]
print("passed %d, baseline %d, missing %d" % (len(passed), len(base["stable_pass"]), len(missing)))
for m in missing: print("MISSING", m)
if missing: print(p.stdout[-3000:])
sys.exit(1 if missing else 0)
