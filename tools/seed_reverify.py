#!/usr/bin/env python3
"""Re-verifies every change under /verif/seeded against the current checks (and /repo HEAD, falling back to
the recorded base commit when the patch no longer applies).  usage: seed_reverify.py [name-substring]"""
import glob, json, os, shutil, subprocess, sys, tempfile
V = os.path.dirname(os.path.dirname(os.path.abspath(__file__)))
only = sys.argv[1] if len(sys.argv) > 1 else ""
for d in sorted(glob.glob(os.path.join(V, "seeded", "*"))):
    name = os.path.basename(d)
    if only not in name or not os.path.exists(os.path.join(d, "meta.json")):
        continue
    meta = json.load(open(os.path.join(d, "meta.json")))
    tmp = tempfile.mkdtemp(prefix="fvmc-rev-", dir="/var/tmp")
    try:
        shutil.copy(os.path.join(d, "patch.diff"), os.path.join(tmp, "patch.diff"))
        shutil.copy(os.path.join(d, "demo.py"), os.path.join(tmp, "demo.py"))
        ids = list(meta.get("checks", {}).keys()) or [meta["breaks_property"]]
        if os.environ.get("SEED_ONLY_DETECTING"):
            # the property's own check plus the checks that detected the change before (a miss costs a complete run)
            ids = [k for k, v in meta.get("checks", {}).items() if v.get("detected")]
        if meta["breaks_property"] not in ids:
            ids.insert(0, meta["breaks_property"])
        for base in (None, meta.get("base_commit")):
            env = dict(os.environ)
            if base:
                env["SEED_BASE"] = base
            p = subprocess.run([sys.executable, os.path.join(V, "tools", "seed_verify.py"), name, meta["breaks_property"],
                                os.path.join(tmp, "patch.diff"), os.path.join(tmp, "demo.py"), meta["needs_to_manifest"]] + ids,
                               env=env, capture_output=True, text=True)
            m2 = json.load(open(os.path.join(d, "meta.json")))
            if m2.get("patch_applies") or not meta.get("base_commit"):
                break
        print(name, "| base", m2.get("base_commit"), "| demo", m2.get("demo_without_change_exit"), m2.get("demo_with_change_exit"),
              "| tests", m2.get("pinned_tests_pass"), "|", {k: v["detected"] for k, v in m2.get("checks", {}).items()}, flush=True)
    finally:
        shutil.rmtree(tmp, ignore_errors=True)
