#!/bin/sh
# runs the heavy thorough tiers one after another (used via `vp run`)
for c in C05 C01 C06 C07 C08 C03 C02 C09; do
  /usr/bin/time -f "$c wall %e s" /venv/bin/python -m fvmc.run $c --tier thorough 2>&1 | tail -6 | cut -c1-400
done
