#!/usr/bin/env python3
"""Verify a seeded change and record it under /verif/seeded/<name>/.

usage: seed_verify.py <name> <property> <patch.diff> <demo.py> <needs text> <ID> [<ID> ...]
Steps (all on a scratch clone of /repo under $VERIF_SCRATCH or /var/tmp, removed afterwards):
  demo on the unchanged clone must exit 0; patch must apply; demo with the patch must exit != 0;
  the pinned test suite must still pass; then each listed check is run (quick) against the clone."""
import json, os, shutil, subprocess, sys, tempfile
name, prop, patch, demo, needs = sys.argv[1:6]
ids = sys.argv[6:]
VERIF = os.path.dirname(os.path.dirname(os.path.abspath(__file__)))
dest = os.path.join(VERIF, "seeded", name)
os.makedirs(dest, exist_ok=True)
shutil.copy(patch, os.path.join(dest, "patch.diff"))
shutil.copy(demo, os.path.join(dest, "demo.py"))
scratch = tempfile.mkdtemp(prefix="fvmc-seed-", dir=os.environ.get("VERIF_SCRATCH", "/var/tmp"))
old_meta = {}
if os.path.exists(os.path.join(dest, "meta.json")):
    try:
        old_meta = json.load(open(os.path.join(dest, "meta.json")))
    except Exception:
        old_meta = {}
meta = {"name": name, "breaks_property": prop, "needs_to_manifest": needs, "ran": []}
try:
    dst = os.path.join(scratch, "repo")
    subprocess.run(["git", "clone", "-q", "/repo", dst], check=True)
    if os.environ.get("SEED_BASE"):
        subprocess.run(["git", "-C", dst, "checkout", "-q", os.environ["SEED_BASE"]], check=True)
    meta["base_commit"] = subprocess.run(["git", "-C", dst, "rev-parse", "--short", "HEAD"], capture_output=True, text=True).stdout.strip()
    # the demo scripts assert the worktree path of their author; rewrite it to the scratch clone
    txt = open(os.path.join(dest, "demo.py")).read()
    import re
    local_demo = os.path.join(scratch, "demo.py")
    open(local_demo, "w").write(re.sub(r"/tmp/seed\d?_C\d+[a-z]?", dst, txt))
    env = dict(os.environ, PYTHONPATH=os.path.join(dst, "src"), MPLBACKEND="Agg")
    def run_demo():
        p = subprocess.run(["/venv/bin/python", local_demo], cwd=dst, env=env, capture_output=True, text=True, timeout=900)
        return p.returncode, (p.stdout + p.stderr)[-400:]
    rc0, out0 = run_demo()
    meta["demo_without_change_exit"] = rc0
    a = subprocess.run(["git", "-C", dst, "apply", os.path.join(dest, "patch.diff")], capture_output=True, text=True)
    meta["patch_applies"] = a.returncode == 0
    if a.returncode:
        meta["apply_error"] = a.stderr[-300:]
    else:
        rc1, out1 = run_demo()
        meta["demo_with_change_exit"] = rc1
        meta["demo_with_change_tail"] = out1[-300:]
        if os.environ.get("SEED_SKIP_TESTS") and old_meta.get("pinned_tests_pass") is not None:
            # re-verification of the checks only: the pinned-suite verdict of this patch is carried over
            meta["pinned_tests_pass"] = old_meta["pinned_tests_pass"]
            meta["pinned_tests_line"] = old_meta.get("pinned_tests_line", "")
            meta["pinned_tests_run_at_base"] = old_meta.get("pinned_tests_run_at_base", old_meta.get("base_commit"))
        else:
            t = subprocess.run([sys.executable, os.path.join(VERIF, "tools", "run_baseline.py"), dst], capture_output=True, text=True)
            meta["pinned_tests_pass"] = t.returncode == 0
            meta["pinned_tests_line"] = t.stdout.strip().splitlines()[0] if t.stdout.strip() else ""
            meta["pinned_tests_run_at_base"] = meta["base_commit"]
        meta["checks"] = {}
        for pid in ids:
            e = dict(os.environ, VERIF_REPO=dst, VERIF_NOEVIDENCE="1", VERIF_FAILFAST="1")
            p = subprocess.run(["/venv/bin/python", "-m", "fvmc.run", pid, "--tier", "quick"], cwd=VERIF, env=e, capture_output=True, text=True)
            viol = [l[:300] for l in p.stdout.splitlines() if l.startswith("VIOLATION")]
            meta["checks"][pid] = {"detected": p.returncode == 1 and bool(viol), "exit": p.returncode, "first_violation": viol[:2]}
    meta["ran"] = ["demo on unchanged clone", "git apply", "demo with change", "tools/run_baseline.py", "fvmc.run <ID> --tier quick with VERIF_REPO=<clone>"]
finally:
    shutil.rmtree(scratch, ignore_errors=True)
json.dump(meta, open(os.path.join(dest, "meta.json"), "w"), indent=1)
print(json.dumps(meta, indent=1))
