#!/usr/bin/env python3
"""Replaces the measured table of DESIGN.md section 0.2 by tools/coverage_table.py output (from /verif/evidence)."""
import os, subprocess, sys
V = os.path.dirname(os.path.dirname(os.path.abspath(__file__)))
p = os.path.join(V, "DESIGN.md")
s = open(p).read()
a = s.index("### 0.2 ")
b = s.index("### 0.3 ")
table = subprocess.run([sys.executable, os.path.join(V, "tools", "coverage_table.py")], capture_output=True, text=True, check=True).stdout
new = """### 0.2 What each check enumerates (measured: last quick run on the repaired tree, 16 cores; from /verif/evidence)

What is enumerated per check is described in MANIFEST.json (`level_claimed.text`) and, with the bounds actually used, in each evidence
file (`coverage.rule`, `coverage.bounds`).  Numbers of the last quick run (`tools/coverage_table.py`):

""" + table + """
Thorough tiers widen the same enumerations (spacing template G and N<=4 where cheap, full BC products in 1-D/2-D, deviation bound 3,
program length 4, call sequences of length 3, tree depth 3, BFS depth 4 on Grid1D/Grid2D and 3 on five more grids plus the unmerged
cross-check, all 64+10 scale triples, 4-level ladders).  They take between seconds (C10, C16) and about an hour (C01, C02, C05, C09)
on 16 idle cores.

"""
open(p, "w").write(s[:a] + new + s[b:])
print("section 0.2 replaced")
